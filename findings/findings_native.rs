//! Native reproducers (public API only) for the defects found by the checks.
//! Run from a checkout of the repo: copy to tests/ and `cargo test --test findings_native`.
use proguard::{ProguardCache, ProguardMapper, ProguardMapping, StackFrame, StackTrace, Throwable};
use std::io::Write;

fn cache_bytes(mapping: &[u8]) -> Vec<u8> {
    let mut v = Vec::new();
    ProguardCache::write(&ProguardMapping::new(mapping), &mut v).unwrap();
    v
}

/// F2 (C13): original-line arithmetic overflows in the mapper for huge original start lines.
#[test]
fn f2_mapper_orig_line_overflow() {
    let m = "a -> b:\n    1:2:void m():18446744073709551615:3 -> x\n";
    let mapper = ProguardMapper::from(m);
    let frames: Vec<_> = mapper.remap_frame(&StackFrame::new("b", "x", 2)).collect();
    assert_eq!(frames.len(), 1);
}

/// F1 (C13/C12): the cache reader's line arithmetic under/overflows. Reachable from
/// mapping text: an endline >= 2^32 is truncated to 0 by the writer, which disables the range filter.
#[test]
fn f1_cache_orig_line_underflow() {
    let m = "a -> b:\n    5:4294967296:void m():1:2 -> x\n";
    let bytes = cache_bytes(m.as_bytes());
    let cache = ProguardCache::parse(&bytes).unwrap();
    let frames: Vec<_> = cache.remap_frame(&StackFrame::new("b", "x", 0)).collect();
    assert!(frames.len() <= 1);
}

/// F3 (C08): typed remapping drops a throwable whose class is unknown.
#[test]
fn f3_typed_drops_unknown_throwable() {
    let mapper = ProguardMapper::from("a -> b:\n");
    let t = StackTrace::new(Some(Throwable::with_message("zz", "boom")), vec![]);
    let out = mapper.remap_stacktrace_typed(&t);
    assert_eq!(out.exception(), Some(&Throwable::with_message("zz", "boom")));
}

/// F4 (C06): an unterminated sourceFile header swallows the following lines.
#[test]
fn f4_sourcefile_scan_past_line_end() {
    let m = b"# {\"id\":\"sourceFile\",\"fileName\":\"Foo.kt\na -> b:\n    void m() -> x\n# \"}\n";
    let mapping = ProguardMapping::new(m);
    let recs: Vec<_> = mapping.iter().collect();
    // the class line after the bad header must still be seen as a class record
    assert!(recs.iter().any(|r| matches!(r, Ok(proguard::ProguardRecord::Class { .. }))), "{:?}", recs);
    for r in &recs {
        if let Ok(proguard::ProguardRecord::Header { value: Some(v), .. }) = r {
            assert!(!v.contains('\n'), "header value spans lines: {:?}", v);
        }
    }
}

/// F6 (C02/C03/C09): by-params offsets are wrong as soon as a second class has members.
#[test]
fn f6_by_params_offset() {
    let m = "\
A -> a:
    1:1:void f1():1:1 -> m
    1:1:void f2():2:2 -> m
    3:3:void f3():3:3 -> n
B -> b:
    4:4:void g(int):4:4 -> p
";
    let mapper = ProguardMapper::from((m, true));
    let bytes = cache_bytes(m.as_bytes());
    let cache = ProguardCache::parse(&bytes).unwrap();
    let f = StackFrame::with_parameters("b", "p", "int");
    let a: Vec<_> = mapper.remap_frame(&f).collect();
    let b: Vec<_> = cache.remap_frame(&f).collect();
    assert_eq!(a.len(), 1);
    assert_eq!(a, b);
}

/// F7 (C02): `# sourceFile` without a value resets the file in the mapper but not in the cache writer.
#[test]
fn f7_sourcefile_without_value() {
    let m = "\
A -> a:
# sourceFile: X.kt
# sourceFile
    1:1:void f():1:1 -> m
";
    let mapper = ProguardMapper::from(m);
    let bytes = cache_bytes(m.as_bytes());
    let cache = ProguardCache::parse(&bytes).unwrap();
    let f = StackFrame::with_file("a", "m", 1, "S");
    let a: Vec<_> = mapper.remap_frame(&f).collect();
    let b: Vec<_> = cache.remap_frame(&f).collect();
    assert_eq!(a, b);
}

struct OneByte(Vec<u8>);
impl Write for OneByte {
    fn write(&mut self, buf: &[u8]) -> std::io::Result<usize> {
        if buf.is_empty() {
            return Ok(0);
        }
        self.0.push(buf[0]);
        Ok(1)
    }
    fn flush(&mut self) -> std::io::Result<()> {
        Ok(())
    }
}

/// F5 (C15): with a sink that accepts one byte per call, padding is cut short and
/// `write` still reports success with different bytes.
#[test]
fn f5_short_write_padding() {
    let m = b"A -> a:\n";
    let canon = cache_bytes(m);
    let mut sink = OneByte(Vec::new());
    let r = ProguardCache::write(&ProguardMapping::new(m), &mut sink);
    assert!(r.is_ok());
    assert_eq!(sink.0, canon);
}
