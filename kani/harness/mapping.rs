//! Harnesses living inside `crate::mapping` (child module: sees private items).
#![allow(dead_code, unused_imports, clippy::all)]

use super::*;

/// An `Err` item as the real iterator yields it for the unparseable line `x`.
pub(crate) fn parse_error_item() -> ParseError<'static> {
    ParseError { line: b"x", kind: ParseErrorKind::ParseError("line is not a valid proguard record") }
}

/// Remaining length of the iterator's source (one dummy byte per injected item).
pub(crate) fn remaining(it: &ProguardRecordIter<'_>) -> usize {
    it.slice.len()
}

use crate::verif_support::inject::{self, bad, cls, fld, hdr, mth, Item};
use crate::verif_support::stubs::from_utf8_model;

/// Exact model of `char::is_numeric` on U+0000..U+00FF, the only range a
/// `u8 as char` reaches (Unicode general categories Nd/Nl/No in Latin-1:
/// ASCII digits, superscripts 2 3 1, vulgar fractions 1/4 1/2 3/4). Proved equal to
/// the real function on all 256 inputs by `s_is_numeric_latin1`.
pub(crate) fn is_numeric_model(c: char) -> bool {
    let v = c as u32;
    assert!(v < 0x100, "model: is_numeric_model used outside Latin-1");
    (v >= 0x30 && v <= 0x39) || v == 0xB2 || v == 0xB3 || v == 0xB9 || v == 0xBC || v == 0xBD || v == 0xBE
}

#[kani::proof]
#[kani::unwind(12)]
fn s_is_numeric_latin1() {
    let b: u8 = kani::any();
    let c = b as char;
    assert!(c.is_numeric() == is_numeric_model(c), "model: is_numeric differs on Latin-1");
}

fn is_nl(b: u8) -> bool {
    b == b'\r' || b == b'\n'
}

fn has_nl(s: &str) -> bool {
    let b = s.as_bytes();
    let mut i = 0;
    while i < b.len() {
        if is_nl(b[i]) {
            return true;
        }
        i += 1;
    }
    false
}

fn opt_has_nl(s: Option<&str>) -> bool {
    match s {
        Some(s) => has_nl(s),
        None => false,
    }
}

fn record_has_nl(r: &ProguardRecord) -> bool {
    match r {
        ProguardRecord::Header { key, value } => has_nl(key) || opt_has_nl(*value),
        ProguardRecord::Class { original, obfuscated } => has_nl(original) || has_nl(obfuscated),
        ProguardRecord::Field { ty, original, obfuscated } => has_nl(ty) || has_nl(original) || has_nl(obfuscated),
        ProguardRecord::Method { ty, original, obfuscated, arguments, original_class, .. } => {
            has_nl(ty) || has_nl(original) || has_nl(obfuscated) || has_nl(arguments) || opt_has_nl(*original_class)
        }
    }
}

/// Number of leading line-terminator bytes.
fn lead_nl(s: &[u8]) -> usize {
    let mut k = 0;
    let mut i = 0;
    let mut in_lead = true;
    while i < s.len() {
        if in_lead && is_nl(s[i]) {
            k = i + 1;
        } else {
            in_lead = false;
        }
        i += 1;
    }
    k
}

/// C06, inductive step (a)(b)(c): for every non-empty slice of up to N bytes
/// (prefix `PRE` concrete, the rest fully symbolic, symbolic length) one call of
/// the real record parser: never panics (default Kani checks on); returns a
/// strict suffix of its input (=> the iterator terminates and yields at most one
/// item per input byte, for inputs of any length, by induction); and no string
/// of a returned record contains a line terminator.
fn c06_step<const P: usize, const N: usize>(pre: &[u8; P]) {
    let mut buf: [u8; N] = kani::any();
    let mut i = 0;
    while i < P {
        buf[i] = pre[i];
        i += 1;
    }
    let len: usize = kani::any();
    kani::assume(len >= 1 && len >= P && len <= N);
    let s = &buf[..len];
    let (r, rest) = parse_proguard_record(s);
    assert!(rest.len() < s.len(), "C06: the parser did not consume anything");
    if !rest.is_empty() {
        assert!(rest.as_ptr() == unsafe { s.as_ptr().add(s.len() - rest.len()) }, "C06: the rest is not a suffix of the input");
    }
    match &r {
        Ok(rec) => {
            assert!(!record_has_nl(rec), "C06: a record string contains a line terminator");
            kani::cover!(matches!(rec, ProguardRecord::Header { .. }), "a header parsed");
        }
        Err(e) => {
            core::mem::forget(*e);
        }
    }
    kani::cover!(r.is_err() && !rest.is_empty(), "error with input left");
}

/// C06, inductive step (d) locality: the result of one step depends only on the
/// first line. With k leading terminators and p the first terminator after
/// them, the record parsed from the whole slice equals the record parsed from
/// the line alone, and the rest resumes (modulo terminators) right after that line.
fn c06_locality<const P: usize, const N: usize>(pre: &[u8; P]) {
    let mut buf: [u8; N] = kani::any();
    let mut i = 0;
    while i < P {
        buf[i] = pre[i];
        i += 1;
    }
    let s = &buf[..];
    let k = lead_nl(s);
    kani::assume(k < N);
    // first terminator after the leading ones
    let mut p = N;
    i = N;
    while i > k {
        i -= 1;
        if is_nl(s[i]) {
            p = i;
        }
    }
    let (r1, rest1) = parse_proguard_record(s);
    let (r2, rest2) = parse_proguard_record(&s[..p]);
    match (&r1, &r2) {
        (Ok(a), Ok(b)) => assert!(a == b, "C06: the record depends on bytes after its line"),
        (Err(_), Err(_)) => {}
        _ => panic!("C06: whether a line parses depends on bytes after it"),
    }
    assert!(rest2.is_empty() || lead_nl(rest2) == rest2.len(), "C06: a single line left a rest");
    // rest1, stripped of leading terminators, is s[p..] stripped of leading terminators
    let a = rest1.len() - lead_nl(rest1);
    let b = (N - p) - lead_nl(&s[p..]);
    assert!(a == b, "C06: parsing does not resume right after the line");
    kani::cover!(p < N && r1.is_ok(), "record followed by more input");
    kani::cover!(p < N && r1.is_err(), "bad line followed by more input");
}

macro_rules! c06 {
    ($name:ident, $f:ident, $pre:expr, $p:expr, $n:expr, $uw:expr) => {
        #[kani::proof]
        #[kani::stub(core::str::from_utf8, from_utf8_model)]
        #[kani::stub(char::is_numeric, is_numeric_model)]
        #[kani::stub(core::slice::memchr::memchr, crate::java::verif_harness::memchr_model)]
        #[kani::stub(core::slice::memchr::memrchr, crate::java::verif_harness::memrchr_model)]
        #[kani::unwind($uw)]
        fn $name() {
            $f::<$p, $n>($pre);
        }
    };
}
c06!(c06_step_any_3, c06_step, b"", 0, 3, 6);
c06!(c06_step_any_4, c06_step, b"", 0, 4, 7);
c06!(c06_step_any_5, c06_step, b"", 0, 5, 8);
c06!(c06_step_member_4, c06_step, b"    ", 4, 8, 11);
c06!(c06_step_member_6, c06_step, b"    ", 4, 10, 13);
c06!(c06_step_header_4, c06_step, b"#", 1, 5, 8);
c06!(c06_step_header_6, c06_step, b"# ", 2, 8, 11);
c06!(c06_step_sourcefile_3, c06_step, b"# {\"id\":\"sourceFile\",\"fileName\":\"", 33, 36, 40);
c06!(c06_step_sourcefile_5, c06_step, b"# {\"id\":\"sourceFile\",\"fileName\":\"", 33, 38, 42);
c06!(c06_locality_any_4, c06_locality, b"", 0, 4, 7);
c06!(c06_locality_any_5, c06_locality, b"", 0, 5, 8);
c06!(c06_locality_header_4, c06_locality, b"#", 1, 5, 8);
c06!(c06_locality_sourcefile_4, c06_locality, b"# {\"id\":\"sourceFile\",\"fileName\":\"", 33, 37, 41);

// ---------------------------------------------------------------- C19: file-level metadata == folds over the record stream

/// One stream item of symbolic kind: error line, header (key from {compiler,
/// compiler_version, min_api, other} x value from {none, R8, 15, x}), class,
/// field, method without / with a line mapping.
fn any_item() -> Item {
    let k: u8 = kani::any();
    kani::assume(k < 6);
    if k == 0 {
        bad()
    } else if k == 1 {
        let h: u8 = kani::any();
        kani::assume(h < 4);
        let v: u8 = kani::any();
        kani::assume(v < 4);
        let key = if h == 0 { "compiler" } else if h == 1 { "compiler_version" } else if h == 2 { "min_api" } else { "pg_map_id" };
        if v == 0 {
            hdr(key, None)
        } else if v == 1 {
            hdr(key, Some("R8"))
        } else if v == 2 {
            hdr(key, Some("15"))
        } else {
            hdr(key, Some("x"))
        }
    } else if k == 2 {
        cls("A", "a")
    } else if k == 3 {
        fld("f", "g")
    } else if k == 4 {
        mth("f", "m", "", None, inject::NO_LM)
    } else {
        mth("f", "m", "", None, inject::lm(1, 2, None, None))
    }
}

fn str_eq(a: &str, b: &str) -> bool {
    a.len() == b.len() && a.as_bytes() == b.as_bytes()
}

fn opt_str_eq(a: Option<&str>, b: Option<&str>) -> bool {
    match (a, b) {
        (None, None) => true,
        (Some(x), Some(y)) => str_eq(x, y),
        _ => false,
    }
}

/// C19: `has_line_info` and `summary` equal the reference folds over the whole
/// stream, for every stream of N items of symbolic kind.
fn c19_folds<const N: usize>(items: [Item; N]) {
    let src = inject::set(&items);
    let mapping = ProguardMapping::new(src);
    // reference folds, straight from the property statement
    let mut any_lm = false;
    let mut classes = 0usize;
    let mut methods = 0usize;
    let mut compiler: Option<&str> = None;
    let mut version: Option<&str> = None;
    let mut min_api: Option<u32> = None;
    let mut i = 0;
    while i < N {
        let it = &items[i];
        if it.kind == inject::K_METHOD {
            methods += 1;
            if it.lm.present {
                any_lm = true;
            }
        } else if it.kind == inject::K_CLASS {
            classes += 1;
        } else if it.kind == inject::K_HEADER {
            let v = if it.has_b { Some(it.b) } else { None };
            if str_eq(it.a, "compiler") {
                compiler = v;
            } else if str_eq(it.a, "compiler_version") {
                version = v;
            } else if str_eq(it.a, "min_api") {
                // the value as a number, if it is one ("15" is the only numeric value in the universe)
                min_api = match v {
                    Some(s) if str_eq(s, "15") => Some(15),
                    _ => None,
                };
            }
        }
        i += 1;
    }
    assert!(mapping.has_line_info() == any_lm, "C19: has_line_info differs from the fold over all records");
    let sum = mapping.summary();
    assert!(sum.class_count() == classes, "C19: class count");
    assert!(sum.method_count() == methods, "C19: method count");
    assert!(opt_str_eq(sum.compiler(), compiler), "C19: compiler is not the last compiler header");
    assert!(opt_str_eq(sum.compiler_version(), version), "C19: compiler_version is not the last such header");
    assert!(sum.min_api() == min_api, "C19: min_api is not the last such header");
    kani::cover!(any_lm && items[N - 1].kind == inject::K_METHOD && items[N - 1].lm.present && !items[0].lm.present, "line info only in the last record");
    kani::cover!(compiler.is_some() && classes > 0, "compiler header and classes");
}

macro_rules! c19f {
    ($name:ident, $n:expr, $items:expr) => {
        #[kani::proof]
        #[kani::stub(crate::mapping::parse_proguard_record, inject::parse_stub)]
        #[kani::unwind(24)]
        fn $name() {
            c19_folds::<$n>($items);
        }
    };
}
c19f!(c19_folds_3, 3, [any_item(), any_item(), any_item()]);
c19f!(c19_folds_5, 5, [any_item(), any_item(), any_item(), any_item(), any_item()]);
c19f!(c19_folds_8, 8, [any_item(), any_item(), any_item(), any_item(), any_item(), any_item(), any_item(), any_item()]);

/// C19: `is_valid` is true exactly when, among the first 50 items, a class
/// record is followed (anywhere later within those 50) by a field or method
/// record. 52 items of symbolic kind in {error, header, class, field, method}.
fn kind_item() -> Item {
    let k: u8 = kani::any();
    kani::assume(k < 5);
    if k == 0 {
        bad()
    } else if k == 1 {
        hdr("x", None)
    } else if k == 2 {
        cls("A", "a")
    } else if k == 3 {
        fld("f", "g")
    } else {
        mth("f", "m", "", None, inject::NO_LM)
    }
}

#[kani::proof]
#[kani::stub(crate::mapping::parse_proguard_record, inject::parse_stub)]
#[kani::unwind(54)]
fn c19_is_valid_window() {
    let items: [Item; 52] = [
        kind_item(), kind_item(), kind_item(), kind_item(), kind_item(), kind_item(), kind_item(), kind_item(), kind_item(), kind_item(),
        kind_item(), kind_item(), kind_item(), kind_item(), kind_item(), kind_item(), kind_item(), kind_item(), kind_item(), kind_item(),
        kind_item(), kind_item(), kind_item(), kind_item(), kind_item(), kind_item(), kind_item(), kind_item(), kind_item(), kind_item(),
        kind_item(), kind_item(), kind_item(), kind_item(), kind_item(), kind_item(), kind_item(), kind_item(), kind_item(), kind_item(),
        kind_item(), kind_item(), kind_item(), kind_item(), kind_item(), kind_item(), kind_item(), kind_item(), kind_item(), kind_item(),
        kind_item(), kind_item(),
    ];
    let src = inject::set(&items);
    let mapping = ProguardMapping::new(src);
    let mut seen_class = false;
    let mut want = false;
    let mut i = 0;
    while i < 50 {
        if items[i].is_class() {
            seen_class = true;
        } else if items[i].is_member() && seen_class {
            want = true;
        }
        i += 1;
    }
    assert!(mapping.is_valid() == want, "C19: is_valid differs from the 50-item window rule");
    kani::cover!(want && !items[48].is_member() && items[49].is_member() && !items[47].is_member(), "evidence at item 50");
    kani::cover!(!want && items[49].is_class() && items[50].is_member(), "evidence just outside the window");
}

// ---------------------------------------------------------------- C18: UUID wiring (SHA-1 uninterpreted)
#[cfg(feature = "uuid")]
mod c18 {
    use super::super::*;
    use uuid::Uuid;

    // NB: non-zero initial values (Kani aliases all-zero `static mut`s with constants)
    const BASE: usize = 0x7e57_1000;
    static mut CALLS: usize = BASE;
    static mut NS: [[u8; 16]; 2] = [[0xEE; 16]; 2];
    static mut NAME_PTR: [*const u8; 2] = [&MARK as *const u8; 2];
    static mut NAME_LEN: [usize; 2] = [BASE; 2];
    static mut RESULT: [[u8; 16]; 2] = [[0xEE; 16]; 2];
    static MARK: u8 = 1;

    /// Uninterpreted stand-in for `Uuid::new_v5` (SHA-1 of namespace || name): records
    /// its arguments and returns a fresh arbitrary value per call.
    fn new_v5_recorder(namespace: &Uuid, name: &[u8]) -> Uuid {
        let out: [u8; 16] = kani::any();
        unsafe {
            let c = CALLS - BASE;
            assert!(c < 2, "C18: more than two hash computations");
            NS[c] = *namespace.as_bytes();
            NAME_PTR[c] = name.as_ptr();
            NAME_LEN[c] = name.len();
            RESULT[c] = out;
            CALLS += 1;
        }
        Uuid::from_bytes(out)
    }

    /// C18: for every source slice (<=16 symbolic bytes, symbolic length) `uuid()` is
    /// `new_v5(new_v5(NAMESPACE_DNS, "guardsquare.com"), <exactly the source bytes>)`:
    /// two hash computations, the first over the DNS namespace and the literal name,
    /// the second over the first's result and the untouched source slice (same
    /// pointer, full length - no trimming, no normalisation), and its result returned.
    #[kani::proof]
    #[kani::stub(uuid::Uuid::new_v5, new_v5_recorder)]
    #[kani::unwind(20)]
    fn c18_uuid_wiring() {
        let buf: [u8; 16] = kani::any();
        let len: usize = kani::any();
        kani::assume(len <= 16);
        let src = &buf[..len];
        let mapping = ProguardMapping::new(src);
        let u = mapping.uuid();
        unsafe {
            assert!(CALLS - BASE == 2, "C18: expected exactly two hash computations");
            assert!(NS[0] == *Uuid::NAMESPACE_DNS.as_bytes(), "C18: first namespace is not the DNS namespace");
            assert!(NAME_LEN[0] == 15, "C18: first name is not `guardsquare.com`");
            let n0 = core::slice::from_raw_parts(NAME_PTR[0], 15);
            assert!(n0 == b"guardsquare.com", "C18: first name is not `guardsquare.com`");
            assert!(NS[1] == RESULT[0], "C18: second namespace is not the result of the first hash");
            assert!(NAME_PTR[1] == src.as_ptr() && NAME_LEN[1] == len, "C18: the hashed bytes are not exactly the source bytes");
            assert!(*u.as_bytes() == RESULT[1], "C18: the returned UUID is not the second hash");
        }
        kani::cover!(len == 0, "empty source");
        kani::cover!(len == 16 && buf[15] == b'\n' && buf[14] == b'\r', "source ending in CRLF");
    }
}
