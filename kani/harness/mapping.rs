//! Harnesses living inside `crate::mapping` (child module: sees private items).
#![allow(dead_code, unused_imports, clippy::all)]

use super::*;

/// An `Err` item as the real iterator yields it for the unparseable line `x`.
pub(crate) fn parse_error_item() -> ParseError<'static> {
    ParseError { line: b"x", kind: ParseErrorKind::ParseError("line is not a valid proguard record") }
}

/// Remaining length of the iterator's source (one dummy byte per injected item).
pub(crate) fn remaining(it: &ProguardRecordIter<'_>) -> usize {
    it.slice.len()
}
