//! Harnesses living inside `crate::mapping` (child module: sees private items).
#![allow(dead_code, unused_imports, clippy::all)]

use super::*;

/// An `Err` item as the real iterator yields it for the unparseable line `x`.
pub(crate) fn parse_error_item() -> ParseError<'static> {
    ParseError { line: b"x", kind: ParseErrorKind::ParseError("line is not a valid proguard record") }
}

/// Remaining length of the iterator's source (one dummy byte per injected item).
pub(crate) fn remaining(it: &ProguardRecordIter<'_>) -> usize {
    it.slice.len()
}

use crate::verif_support::inject::{self, bad, cls, fld, hdr, mth, Item};
use crate::verif_support::stubs::from_utf8_model;

/// Exact model of `char::is_numeric` on U+0000..U+00FF, the only range a
/// `u8 as char` reaches (Unicode general categories Nd/Nl/No in Latin-1:
/// ASCII digits, superscripts 2 3 1, vulgar fractions 1/4 1/2 3/4). Proved equal to
/// the real function on all 256 inputs by `s_is_numeric_latin1`.
pub(crate) fn is_numeric_model(c: char) -> bool {
    let v = c as u32;
    assert!(v < 0x100, "model: is_numeric_model used outside Latin-1");
    (v >= 0x30 && v <= 0x39) || v == 0xB2 || v == 0xB3 || v == 0xB9 || v == 0xBC || v == 0xBD || v == 0xBE
}

#[kani::proof]
#[kani::unwind(12)]
fn s_is_numeric_latin1() {
    let b: u8 = kani::any();
    let c = b as char;
    assert!(c.is_numeric() == is_numeric_model(c), "model: is_numeric differs on Latin-1");
}

fn is_nl(b: u8) -> bool {
    b == b'\r' || b == b'\n'
}

fn has_nl(s: &str) -> bool {
    let b = s.as_bytes();
    let mut i = 0;
    while i < b.len() {
        if is_nl(b[i]) {
            return true;
        }
        i += 1;
    }
    false
}

fn opt_has_nl(s: Option<&str>) -> bool {
    match s {
        Some(s) => has_nl(s),
        None => false,
    }
}

fn record_has_nl(r: &ProguardRecord) -> bool {
    match r {
        ProguardRecord::Header { key, value } => has_nl(key) || opt_has_nl(*value),
        ProguardRecord::Class { original, obfuscated } => has_nl(original) || has_nl(obfuscated),
        ProguardRecord::Field { ty, original, obfuscated } => has_nl(ty) || has_nl(original) || has_nl(obfuscated),
        ProguardRecord::Method { ty, original, obfuscated, arguments, original_class, .. } => {
            has_nl(ty) || has_nl(original) || has_nl(obfuscated) || has_nl(arguments) || opt_has_nl(*original_class)
        }
    }
}

/// Number of leading line-terminator bytes.
fn lead_nl(s: &[u8]) -> usize {
    let mut k = 0;
    let mut i = 0;
    let mut in_lead = true;
    while i < s.len() {
        if in_lead && is_nl(s[i]) {
            k = i + 1;
        } else {
            in_lead = false;
        }
        i += 1;
    }
    k
}

/// C06, inductive step (a)(b)(c): for every non-empty slice of up to N bytes
/// (prefix `PRE` concrete, the rest fully symbolic, symbolic length) one call of
/// the real record parser: never panics (default Kani checks on); returns a
/// strict suffix of its input (=> the iterator terminates and yields at most one
/// item per input byte, for inputs of any length, by induction); and no string
/// of a returned record contains a line terminator.
fn c06_step<const P: usize, const N: usize>(pre: &[u8; P]) {
    let mut buf: [u8; N] = kani::any();
    let mut i = 0;
    while i < P {
        buf[i] = pre[i];
        i += 1;
    }
    let len: usize = kani::any();
    kani::assume(len >= 1 && len >= P && len <= N);
    let s = &buf[..len];
    let (r, rest) = parse_proguard_record(s);
    assert!(rest.len() < s.len(), "C06: the parser did not consume anything");
    if !rest.is_empty() {
        assert!(rest.as_ptr() == unsafe { s.as_ptr().add(s.len() - rest.len()) }, "C06: the rest is not a suffix of the input");
    }
    match &r {
        Ok(rec) => {
            assert!(!record_has_nl(rec), "C06: a record string contains a line terminator");
            kani::cover!(matches!(rec, ProguardRecord::Header { .. }), "a header parsed");
        }
        Err(e) => {
            core::mem::forget(*e);
        }
    }
    kani::cover!(r.is_err() && !rest.is_empty(), "error with input left");
}

fn same_str(a: &str, b: &str) -> bool {
    a.len() == b.len() && (a.is_empty() || a.as_ptr() == b.as_ptr())
}

fn same_opt(a: Option<&str>, b: Option<&str>) -> bool {
    match (a, b) {
        (None, None) => true,
        (Some(x), Some(y)) => same_str(x, y),
        _ => false,
    }
}

/// Both records were parsed from the same buffer: equal means the same variant with
/// the very same slices (pointer and length) and numbers.
fn same_record(a: &ProguardRecord, b: &ProguardRecord) -> bool {
    match (a, b) {
        (ProguardRecord::Header { key: k1, value: v1 }, ProguardRecord::Header { key: k2, value: v2 }) => same_str(k1, k2) && same_opt(*v1, *v2),
        (ProguardRecord::Class { original: o1, obfuscated: b1 }, ProguardRecord::Class { original: o2, obfuscated: b2 }) => same_str(o1, o2) && same_str(b1, b2),
        (ProguardRecord::Field { ty: t1, original: o1, obfuscated: b1 }, ProguardRecord::Field { ty: t2, original: o2, obfuscated: b2 }) => same_str(t1, t2) && same_str(o1, o2) && same_str(b1, b2),
        (
            ProguardRecord::Method { ty: t1, original: o1, obfuscated: b1, arguments: a1, original_class: c1, line_mapping: l1 },
            ProguardRecord::Method { ty: t2, original: o2, obfuscated: b2, arguments: a2, original_class: c2, line_mapping: l2 },
        ) => same_str(t1, t2) && same_str(o1, o2) && same_str(b1, b2) && same_str(a1, a2) && same_opt(*c1, *c2) && l1 == l2,
        _ => false,
    }
}

/// C06, inductive step (d) locality: the result of one step depends only on the
/// first line. With k leading terminators and p the first terminator after
/// them, the record parsed from the whole slice equals the record parsed from
/// the line alone, and the rest resumes (modulo terminators) right after that line.
fn c06_locality<const P: usize, const N: usize>(pre: &[u8; P]) {
    let mut buf: [u8; N] = kani::any();
    let mut i = 0;
    while i < P {
        buf[i] = pre[i];
        i += 1;
    }
    let s = &buf[..];
    let k = lead_nl(s);
    kani::assume(k < N);
    // first terminator after the leading ones
    let mut p = N;
    i = N;
    while i > k {
        i -= 1;
        if is_nl(s[i]) {
            p = i;
        }
    }
    let (r1, rest1) = parse_proguard_record(s);
    let (r2, rest2) = parse_proguard_record(&s[..p]);
    match (&r1, &r2) {
        (Ok(a), Ok(b)) => assert!(same_record(a, b), "C06: the record depends on bytes after its line"),
        (Err(_), Err(_)) => {}
        _ => panic!("C06: whether a line parses depends on bytes after it"),
    }
    assert!(rest2.is_empty() || lead_nl(rest2) == rest2.len(), "C06: a single line left a rest");
    // rest1, stripped of leading terminators, is s[p..] stripped of leading terminators
    let a = rest1.len() - lead_nl(rest1);
    let b = (N - p) - lead_nl(&s[p..]);
    assert!(a == b, "C06: parsing does not resume right after the line");
    kani::cover!(p < N && r1.is_ok(), "record followed by more input");
    kani::cover!(p < N && r1.is_err(), "bad line followed by more input");
}

macro_rules! c06 {
    ($name:ident, $f:ident, $pre:expr, $p:expr, $n:expr, $uw:expr) => {
        #[kani::proof]
        #[kani::stub(core::str::from_utf8, from_utf8_model)]
        #[kani::stub(char::is_numeric, is_numeric_model)]
        #[kani::stub(core::slice::memchr::memchr, crate::java::verif_harness::memchr_model)]
        #[kani::stub(core::slice::memchr::memrchr, crate::java::verif_harness::memrchr_model)]
        #[kani::unwind($uw)]
        fn $name() {
            $f::<$p, $n>($pre);
        }
    };
}
c06!(c06_step_any_3, c06_step, b"", 0, 3, 6);
c06!(c06_step_any_4, c06_step, b"", 0, 4, 7);
c06!(c06_step_any_5, c06_step, b"", 0, 5, 8);
c06!(c06_step_member_4, c06_step, b"    ", 4, 8, 11);
c06!(c06_step_member_6, c06_step, b"    ", 4, 10, 13);
c06!(c06_step_header_4, c06_step, b"#", 1, 5, 8);
c06!(c06_step_header_6, c06_step, b"# ", 2, 8, 11);
c06!(c06_step_sourcefile_3, c06_step, b"# {\"id\":\"sourceFile\",\"fileName\":\"", 33, 36, 40);
c06!(c06_step_sourcefile_5, c06_step, b"# {\"id\":\"sourceFile\",\"fileName\":\"", 33, 38, 42);
c06!(c06_locality_any_3, c06_locality, b"", 0, 3, 6);
c06!(c06_locality_any_4, c06_locality, b"", 0, 4, 7);
c06!(c06_locality_any_5, c06_locality, b"", 0, 5, 8);
c06!(c06_locality_header_4, c06_locality, b"#", 1, 5, 8);
c06!(c06_locality_sourcefile_4, c06_locality, b"# {\"id\":\"sourceFile\",\"fileName\":\"", 33, 37, 41);

// ---------------------------------------------------------------- C19: file-level metadata == folds over the record stream

/// One stream item of symbolic kind: error line, header (key from {compiler,
/// compiler_version, min_api, other} x value from {none, R8, 15, x}), class,
/// field, method without / with a line mapping.
fn any_item() -> Item {
    let k: u8 = kani::any();
    kani::assume(k < 6);
    if k == 0 {
        bad()
    } else if k == 1 {
        let h: u8 = kani::any();
        kani::assume(h < 4);
        let v: u8 = kani::any();
        kani::assume(v < 4);
        let key = if h == 0 { "compiler" } else if h == 1 { "compiler_version" } else if h == 2 { "min_api" } else { "pg_map_id" };
        if v == 0 {
            hdr(key, None)
        } else if v == 1 {
            hdr(key, Some("R8"))
        } else if v == 2 {
            hdr(key, Some("15"))
        } else {
            hdr(key, Some("x"))
        }
    } else if k == 2 {
        cls("A", "a")
    } else if k == 3 {
        fld("f", "g")
    } else if k == 4 {
        mth("f", "m", "", None, inject::NO_LM)
    } else {
        mth("f", "m", "", None, inject::lm(1, 2, None, None))
    }
}

fn str_eq(a: &str, b: &str) -> bool {
    a.len() == b.len() && a.as_bytes() == b.as_bytes()
}

fn opt_str_eq(a: Option<&str>, b: Option<&str>) -> bool {
    match (a, b) {
        (None, None) => true,
        (Some(x), Some(y)) => str_eq(x, y),
        _ => false,
    }
}

/// C19: `has_line_info` and `summary` equal the reference folds over the whole
/// stream, for every stream of N items of symbolic kind.
fn c19_folds<const N: usize>(items: [Item; N]) {
    let src = inject::set(&items);
    let mapping = ProguardMapping::new(src);
    // reference folds, straight from the property statement
    let mut any_lm = false;
    let mut classes = 0usize;
    let mut methods = 0usize;
    let mut compiler: Option<&str> = None;
    let mut version: Option<&str> = None;
    let mut min_api: Option<u32> = None;
    let mut i = 0;
    while i < N {
        let it = &items[i];
        if it.kind == inject::K_METHOD {
            methods += 1;
            if it.lm.present {
                any_lm = true;
            }
        } else if it.kind == inject::K_CLASS {
            classes += 1;
        } else if it.kind == inject::K_HEADER {
            let v = if it.has_b { Some(it.b) } else { None };
            if str_eq(it.a, "compiler") {
                compiler = v;
            } else if str_eq(it.a, "compiler_version") {
                version = v;
            } else if str_eq(it.a, "min_api") {
                // the value as a number, if it is one ("15" is the only numeric value in the universe)
                min_api = match v {
                    Some(s) if str_eq(s, "15") => Some(15),
                    _ => None,
                };
            }
        }
        i += 1;
    }
    assert!(mapping.has_line_info() == any_lm, "C19: has_line_info differs from the fold over all records");
    let sum = mapping.summary();
    assert!(sum.class_count() == classes, "C19: class count");
    assert!(sum.method_count() == methods, "C19: method count");
    assert!(opt_str_eq(sum.compiler(), compiler), "C19: compiler is not the last compiler header");
    assert!(opt_str_eq(sum.compiler_version(), version), "C19: compiler_version is not the last such header");
    assert!(sum.min_api() == min_api, "C19: min_api is not the last such header");
    kani::cover!(any_lm && items[N - 1].kind == inject::K_METHOD && items[N - 1].lm.present && !items[0].lm.present, "line info only in the last record");
    kani::cover!(compiler.is_some() && classes > 0, "compiler header and classes");
}

macro_rules! c19f {
    ($name:ident, $n:expr, $items:expr) => {
        #[kani::proof]
        #[kani::stub(crate::mapping::parse_proguard_record, inject::parse_stub)]
        #[kani::unwind(24)]
        fn $name() {
            c19_folds::<$n>($items);
        }
    };
}
c19f!(c19_folds_3, 3, [any_item(), any_item(), any_item()]);
c19f!(c19_folds_5, 5, [any_item(), any_item(), any_item(), any_item(), any_item()]);
c19f!(c19_folds_8, 8, [any_item(), any_item(), any_item(), any_item(), any_item(), any_item(), any_item(), any_item()]);

/// C19: `is_valid` is true exactly when, among the first 50 items, a class
/// record is followed (anywhere later within those 50) by a field or method
/// record. 52 items of symbolic kind in {error, header, class, field, method}.
fn kind_item() -> Item {
    let k: u8 = kani::any();
    kani::assume(k < 5);
    if k == 0 {
        bad()
    } else if k == 1 {
        hdr("x", None)
    } else if k == 2 {
        cls("A", "a")
    } else if k == 3 {
        fld("f", "g")
    } else {
        mth("f", "m", "", None, inject::NO_LM)
    }
}

#[kani::proof]
#[kani::stub(crate::mapping::parse_proguard_record, inject::parse_stub)]
#[kani::unwind(54)]
fn c19_is_valid_window() {
    let items: [Item; 52] = [
        kind_item(), kind_item(), kind_item(), kind_item(), kind_item(), kind_item(), kind_item(), kind_item(), kind_item(), kind_item(),
        kind_item(), kind_item(), kind_item(), kind_item(), kind_item(), kind_item(), kind_item(), kind_item(), kind_item(), kind_item(),
        kind_item(), kind_item(), kind_item(), kind_item(), kind_item(), kind_item(), kind_item(), kind_item(), kind_item(), kind_item(),
        kind_item(), kind_item(), kind_item(), kind_item(), kind_item(), kind_item(), kind_item(), kind_item(), kind_item(), kind_item(),
        kind_item(), kind_item(), kind_item(), kind_item(), kind_item(), kind_item(), kind_item(), kind_item(), kind_item(), kind_item(),
        kind_item(), kind_item(),
    ];
    let src = inject::set(&items);
    let mapping = ProguardMapping::new(src);
    let mut seen_class = false;
    let mut want = false;
    let mut i = 0;
    while i < 50 {
        if items[i].is_class() {
            seen_class = true;
        } else if items[i].is_member() && seen_class {
            want = true;
        }
        i += 1;
    }
    assert!(mapping.is_valid() == want, "C19: is_valid differs from the 50-item window rule");
    kani::cover!(want && !items[48].is_member() && items[49].is_member() && !items[47].is_member(), "evidence at item 50");
    kani::cover!(!want && items[49].is_class() && items[50].is_member(), "evidence just outside the window");
}

// ---------------------------------------------------------------- C18: UUID wiring (SHA-1 uninterpreted)
#[cfg(feature = "uuid")]
mod c18 {
    use super::super::*;
    use uuid::Uuid;

    // NB: non-zero initial values (Kani aliases all-zero `static mut`s with constants)
    const BASE: usize = 0x7e57_1000;
    static mut CALLS: usize = BASE;
    static mut NS: [[u8; 16]; 2] = [[0xEE; 16]; 2];
    static mut NAME_PTR: [*const u8; 2] = [&MARK as *const u8; 2];
    static mut NAME_LEN: [usize; 2] = [BASE; 2];
    static mut RESULT: [[u8; 16]; 2] = [[0xEE; 16]; 2];
    static MARK: u8 = 1;

    /// Uninterpreted stand-in for `Uuid::new_v5` (SHA-1 of namespace || name): records
    /// its arguments and returns a fresh arbitrary value per call.
    fn new_v5_recorder(namespace: &Uuid, name: &[u8]) -> Uuid {
        let out: [u8; 16] = kani::any();
        unsafe {
            let c = CALLS - BASE;
            assert!(c < 2, "C18: more than two hash computations");
            NS[c] = *namespace.as_bytes();
            NAME_PTR[c] = name.as_ptr();
            NAME_LEN[c] = name.len();
            RESULT[c] = out;
            CALLS += 1;
        }
        Uuid::from_bytes(out)
    }

    /// C18: for every source slice (<=16 symbolic bytes, symbolic length) `uuid()` is
    /// `new_v5(new_v5(NAMESPACE_DNS, "guardsquare.com"), <exactly the source bytes>)`:
    /// two hash computations, the first over the DNS namespace and the literal name,
    /// the second over the first's result and the untouched source slice (same
    /// pointer, full length - no trimming, no normalisation), and its result returned.
    #[kani::proof]
    #[kani::stub(uuid::Uuid::new_v5, new_v5_recorder)]
    #[kani::unwind(20)]
    fn c18_uuid_wiring() {
        c18_wiring::<16>();
    }

    /// Same on sources of <= 3 bytes: small enough that a change which routes the
    /// bytes through text decoding / re-encoding still terminates and is refuted
    /// (on 16 symbolic bytes such a change only times out = inconclusive).
    #[kani::proof]
    #[kani::stub(uuid::Uuid::new_v5, new_v5_recorder)]
    #[kani::unwind(20)]
    fn c18_uuid_wiring_3() {
        c18_wiring::<3>();
    }

    /// ... and <= 1 byte (cheapest instance on which text decoding of the source still runs).
    #[kani::proof]
    #[kani::stub(uuid::Uuid::new_v5, new_v5_recorder)]
    #[kani::unwind(20)]
    fn c18_uuid_wiring_1() {
        c18_wiring::<1>();
    }

    fn c18_wiring<const N: usize>() {
        let buf: [u8; N] = kani::any();
        let len: usize = kani::any();
        kani::assume(len <= N);
        let src = &buf[..len];
        let mapping = ProguardMapping::new(src);
        let u = mapping.uuid();
        unsafe {
            assert!(CALLS - BASE == 2, "C18: expected exactly two hash computations");
            assert!(NS[0] == *Uuid::NAMESPACE_DNS.as_bytes(), "C18: first namespace is not the DNS namespace");
            assert!(NAME_LEN[0] == 15, "C18: first name is not `guardsquare.com`");
            let n0 = core::slice::from_raw_parts(NAME_PTR[0], 15);
            assert!(n0 == b"guardsquare.com", "C18: first name is not `guardsquare.com`");
            assert!(NS[1] == RESULT[0], "C18: second namespace is not the result of the first hash");
            assert!(NAME_PTR[1] == src.as_ptr() && NAME_LEN[1] == len, "C18: the hashed bytes are not exactly the source bytes");
            assert!(*u.as_bytes() == RESULT[1], "C18: the returned UUID is not the second hash");
        }
        kani::cover!(len == 0, "empty source");
        kani::cover!(N < 2 || (len == N && buf[N - 1] == b'\n' && buf[N - 2 + (N < 2) as usize] == b'\r'), "source ending in CRLF");
    }
}

// ---------------------------------------------------------------- C05: line grammar templates

/// Template segments. A template is a concrete sequence of segments; identifier
/// and number segments are holes filled with symbolic characters, everything
/// else is literal text. The hole positions are recorded while the line is
/// built, so the expected record is assembled from them - never typed by hand.
#[derive(Clone, Copy, PartialEq)]
enum Seg {
    Lit(&'static [u8]),
    /// identifier hole of n characters for role r; `dots`: '.' allowed inside
    Id(usize, Role, bool),
    /// number hole of n digits for role r
    Num(usize, Role),
    /// concrete identifier for role r (digit-only templates: every name is fixed, every number symbolic)
    Fix(&'static [u8], Role),
}

#[derive(Clone, Copy, PartialEq)]
enum Role {
    Start = 0,
    End = 1,
    Ty = 2,
    OClass = 3,
    Orig = 4,
    Args = 5,
    OStart = 6,
    OEnd = 7,
    Obf = 8,
    Key = 9,
    Val = 10,
}
const NROLES: usize = 11;

struct Built {
    buf: [u8; 64],
    len: usize,
    off: [usize; NROLES],
    n: [usize; NROLES],
    present: [bool; NROLES],
    val: [usize; NROLES],
}

fn id_char(dots: bool) -> u8 {
    // identifier alphabet of the property: letters, digits, '$', '<', '>', '-', '[', ']', '_',
    // and (for qualified names) '.'; the 2-byte letter U+00E9 is a separate template literal
    let c: u8 = kani::any();
    kani::assume(matches!(c, b'a' | b'Z' | b'$' | b'<' | b'>' | b'-' | b'[' | b']' | b'_' | b'7') || (dots && c == b'.'));
    c
}

fn build<const S: usize>(segs: &[Seg; S]) -> Built {
    let mut b = Built { buf: [0; 64], len: 0, off: [0; NROLES], n: [0; NROLES], present: [false; NROLES], val: [0; NROLES] };
    let mut s = 0;
    while s < S {
        match segs[s] {
            Seg::Lit(t) => {
                let mut i = 0;
                while i < t.len() {
                    b.buf[b.len] = t[i];
                    b.len += 1;
                    i += 1;
                }
            }
            Seg::Fix(t, r) => {
                let r = r as usize;
                b.off[r] = b.len;
                b.n[r] = t.len();
                b.present[r] = true;
                let mut i = 0;
                while i < t.len() {
                    b.buf[b.len] = t[i];
                    b.len += 1;
                    i += 1;
                }
            }
            Seg::Id(n, r, dots) => {
                let r = r as usize;
                b.off[r] = b.len;
                b.n[r] = n;
                b.present[r] = true;
                let mut i = 0;
                while i < n {
                    let mut c = id_char(dots && i > 0 && i + 1 < n);
                    if i == 0 && r == Role::Ty as usize {
                        // a type does not start with a digit (it would read as a line number)
                        kani::assume(c != b'7');
                    }
                    if r == Role::Key as usize || r == Role::Val as usize {
                        kani::assume(c != b'<' && c != b'>' && c != b'[' && c != b']');
                    }
                    b.buf[b.len] = c;
                    b.len += 1;
                    i += 1;
                    c = 0;
                    let _ = c;
                }
            }
            Seg::Num(n, r) => {
                let r = r as usize;
                b.off[r] = b.len;
                b.n[r] = n;
                b.present[r] = true;
                let mut v = 0usize;
                let mut i = 0;
                while i < n {
                    let d: u8 = kani::any();
                    kani::assume(d <= 9);
                    b.buf[b.len] = b'0' + d;
                    b.len += 1;
                    v = v * 10 + d as usize;
                    i += 1;
                }
                b.val[r] = v;
            }
        }
        s += 1;
    }
    b
}

fn at(b: &Built, s: &str, r: Role) -> bool {
    let r = r as usize;
    b.present[r] && s.len() == b.n[r] && (s.is_empty() && b.n[r] == 0 || unsafe { s.as_ptr().offset_from(b.buf.as_ptr()) } as usize == b.off[r])
}

fn opt_at(b: &Built, s: Option<&str>, r: Role) -> bool {
    match s {
        Some(s) => at(b, s, r),
        None => !b.present[r as usize],
    }
}

/// C05: a well-formed template parses (alone via `try_parse` when it has no
/// terminator, and as the first line of a file via the record parser) to a
/// record with exactly the hole contents: names, types, arguments, the foreign
/// class split at the last dot, and a line mapping present iff both obfuscated
/// numbers are positive, original start/end present iff printed.
/// `kind`: 0 header, 1 class, 2 field, 3 method. `term`: terminator length in the template.
fn c05_wellformed<const S: usize>(segs: [Seg; S], kind: u8, term: usize) {
    let b = build(&segs);
    let line = &b.buf[..b.len];
    let (r, rest) = parse_proguard_record(line);
    assert!(rest.is_empty(), "C05: bytes left after a single well-formed line");
    let rec = match r {
        Ok(rec) => rec,
        Err(e) => {
            core::mem::forget(e);
            panic!("C05: well-formed line rejected");
        }
    };
    if term == 0 {
        match ProguardRecord::try_parse(line) {
            Ok(r2) => assert!(r2 == rec, "C05: try_parse differs from the iterator's parser"),
            Err(e) => {
                core::mem::forget(e);
                panic!("C05: try_parse rejects a well-formed line");
            }
        }
    }
    match rec {
        ProguardRecord::Header { key, value } => {
            assert!(kind == 0, "C05: parsed as a header");
            assert!(at(&b, key, Role::Key) && opt_at(&b, value, Role::Val), "C05: header parts");
        }
        ProguardRecord::Class { original, obfuscated } => {
            assert!(kind == 1, "C05: parsed as a class");
            assert!(at(&b, original, Role::Orig) && at(&b, obfuscated, Role::Obf), "C05: class parts");
        }
        ProguardRecord::Field { ty, original, obfuscated } => {
            assert!(kind == 2, "C05: parsed as a field");
            assert!(at(&b, ty, Role::Ty) && at(&b, original, Role::Orig) && at(&b, obfuscated, Role::Obf), "C05: field parts");
        }
        ProguardRecord::Method { ty, original, obfuscated, arguments, original_class, line_mapping } => {
            assert!(kind == 3, "C05: parsed as a method");
            assert!(at(&b, ty, Role::Ty) && at(&b, original, Role::Orig) && at(&b, obfuscated, Role::Obf) && at(&b, arguments, Role::Args), "C05: method parts");
            assert!(opt_at(&b, original_class, Role::OClass), "C05: foreign class split");
            let s = Role::Start as usize;
            let e = Role::End as usize;
            let want_lm = b.present[s] && b.val[s] > 0 && b.val[e] > 0;
            match line_mapping {
                None => assert!(!want_lm, "C05: line mapping missing"),
                Some(lm) => {
                    assert!(want_lm, "C05: line mapping for a non-positive range");
                    assert!(lm.startline == b.val[s] && lm.endline == b.val[e], "C05: line range");
                    let os = Role::OStart as usize;
                    let oe = Role::OEnd as usize;
                    assert!(lm.original_startline == if b.present[os] { Some(b.val[os]) } else { None }, "C05: original start line");
                    assert!(lm.original_endline == if b.present[oe] { Some(b.val[oe]) } else { None }, "C05: original end line");
                }
            }
            kani::cover!(b.present[s] && b.val[s] == 0, "zero start line");
        }
    }
}

/// C05: a malformed template is reported as an error carrying the offending
/// line (from its first byte up to and including the first terminator), never
/// as a record; parsing resumes after it.
fn c05_malformed<const S: usize>(segs: [Seg; S], line_len: usize) {
    let b = build(&segs);
    let text = &b.buf[..b.len];
    let (r, rest) = parse_proguard_record(text);
    match r {
        Ok(_) => panic!("C05: malformed line accepted as a record"),
        Err(e) => {
            assert!(e.line().as_ptr() == text.as_ptr() && e.line().len() == line_len, "C05: the error does not carry the offending line");
            assert!(rest.len() == b.len - line_len, "C05: parsing does not resume after the offending line");
            core::mem::forget(e);
        }
    }
}

macro_rules! c05 {
    ($name:ident, $uw:expr, $body:expr) => {
        #[kani::proof]
        #[kani::stub(core::str::from_utf8, from_utf8_model)]
        #[kani::stub(char::is_numeric, is_numeric_model)]
        #[kani::stub(core::slice::memchr::memchr, crate::java::verif_harness::memchr_model)]
        #[kani::stub(core::slice::memchr::memrchr, crate::java::verif_harness::memrchr_model)]
        #[kani::unwind($uw)]
        fn $name() {
            $body
        }
    };
}
use Role::*;
use Seg::*;
c05!(c05_class, 13, c05_wellformed([Id(3, Orig, true), Lit(b" -> "), Id(2, Obf, true), Lit(b":")], 1, 0));
c05!(c05_class_crlf, 14, c05_wellformed([Id(2, Orig, true), Lit(b" -> "), Id(2, Obf, false), Lit(b":\r\n")], 1, 2));
c05!(c05_header_kv, 12, c05_wellformed([Lit(b"# "), Id(2, Key, false), Lit(b": "), Id(2, Val, false), Lit(b"\n")], 0, 1));
c05!(c05_header_k, 7, c05_wellformed([Lit(b"#"), Id(3, Key, false)], 0, 0));
c05!(c05_header_sourcefile, 43, c05_wellformed([Lit(b"# {\"id\":\"sourceFile\",\"fileName\":\""), Id(3, Val, true), Lit(b"\"}\n\n")], 0, 2));
c05!(c05_field, 19, c05_wellformed([Lit(b"    "), Id(3, Ty, true), Lit(b" "), Id(2, Orig, false), Lit(b" -> "), Id(2, Obf, false)], 2, 0));
c05!(c05_field_lf, 18, c05_wellformed([Lit(b"    "), Id(2, Ty, false), Lit(b" "), Id(2, Orig, false), Lit(b" -> "), Id(1, Obf, false), Lit(b"\n")], 2, 1));
c05!(c05_method_plain, 22, c05_wellformed([Lit(b"    "), Id(2, Ty, false), Lit(b" "), Id(2, Orig, false), Lit(b"("), Id(2, Args, true), Lit(b") -> "), Id(2, Obf, false)], 3, 0));
c05!(c05_method_noargs_class, 24, c05_wellformed([Lit(b"    "), Id(2, Ty, false), Lit(b" "), Id(3, OClass, true), Lit(b"."), Id(2, Orig, false), Lit(b"("), Id(0, Args, false), Lit(b") -> "), Id(1, Obf, false), Lit(b"\n")], 3, 1));
c05!(c05_method_range, 26, c05_wellformed([Lit(b"    "), Num(2, Start), Lit(b":"), Num(2, End), Lit(b":"), Id(2, Ty, false), Lit(b" "), Id(2, Orig, false), Lit(b"("), Id(1, Args, false), Lit(b") -> "), Id(1, Obf, false)], 3, 0));
c05!(c05_method_range_os, 30, c05_wellformed([Lit(b"    "), Num(2, Start), Lit(b":"), Num(1, End), Lit(b":"), Id(1, Ty, false), Lit(b" "), Id(2, OClass, false), Lit(b"."), Id(1, Orig, false), Lit(b"("), Id(0, Args, false), Lit(b"):"), Num(2, OStart), Lit(b" -> "), Id(1, Obf, false), Lit(b"\r\n")], 3, 2));
c05!(c05_method_range_os_oe, 32, c05_wellformed([Lit(b"    "), Num(1, Start), Lit(b":"), Num(2, End), Lit(b":"), Id(1, Ty, false), Lit(b" "), Id(1, Orig, false), Lit(b"("), Id(1, Args, false), Lit(b"):"), Num(2, OStart), Lit(b":"), Num(3, OEnd), Lit(b" -> "), Id(1, Obf, false), Lit(b"\n\n")], 3, 2));
c05!(c05_method_norange_os, 23, c05_wellformed([Lit(b"    "), Id(2, Ty, false), Lit(b" "), Id(1, Orig, false), Lit(b"("), Id(0, Args, false), Lit(b"):"), Num(2, OStart), Lit(b":"), Num(1, OEnd), Lit(b" -> "), Id(1, Obf, false)], 3, 0));
// digit-only templates: names concrete, every digit of every number symbolic (usable-range rule, presence of
// the original lines for every combination of optional parts)
c05!(c05_digits_range, 24, c05_wellformed([Lit(b"    "), Num(2, Start), Lit(b":"), Num(2, End), Lit(b":"), Fix(b"v", Ty), Lit(b" "), Fix(b"m", Orig), Lit(b"("), Fix(b"", Args), Lit(b") -> "), Fix(b"a", Obf)], 3, 0));
c05!(c05_digits_range_os, 26, c05_wellformed([Lit(b"    "), Num(1, Start), Lit(b":"), Num(2, End), Lit(b":"), Fix(b"v", Ty), Lit(b" "), Fix(b"m", Orig), Lit(b"("), Fix(b"", Args), Lit(b"):"), Num(2, OStart), Lit(b" -> "), Fix(b"a", Obf), Lit(b"\n")], 3, 1));
c05!(c05_digits_range_os_oe, 28, c05_wellformed([Lit(b"    "), Num(1, Start), Lit(b":"), Num(1, End), Lit(b":"), Fix(b"v", Ty), Lit(b" "), Fix(b"m", Orig), Lit(b"("), Fix(b"I", Args), Lit(b"):"), Num(2, OStart), Lit(b":"), Num(2, OEnd), Lit(b" -> "), Fix(b"a", Obf)], 3, 0));
c05!(c05_digits_norange_os_oe, 24, c05_wellformed([Lit(b"    "), Fix(b"v", Ty), Lit(b" "), Fix(b"m", Orig), Lit(b"("), Fix(b"", Args), Lit(b"):"), Num(2, OStart), Lit(b":"), Num(2, OEnd), Lit(b" -> "), Fix(b"a", Obf)], 3, 0));
c05!(c05_digits_norange_os, 20, c05_wellformed([Lit(b"    "), Fix(b"v", Ty), Lit(b" "), Fix(b"m", Orig), Lit(b"("), Fix(b"", Args), Lit(b"):"), Num(2, OStart), Lit(b" -> "), Fix(b"a", Obf)], 3, 0));
c05!(c05_bad_unspaced_arrow, 12, c05_malformed([Id(2, Orig, false), Lit(b"->"), Id(2, Obf, false), Lit(b":\n"), Lit(b"x")], 8));
c05!(c05_bad_class_no_colon, 13, c05_malformed([Id(2, Orig, false), Lit(b" -> "), Id(2, Obf, false), Lit(b"\n"), Lit(b"x")], 9));
c05!(c05_bad_indent2, 16, c05_malformed([Lit(b"  "), Id(2, Ty, false), Lit(b" "), Id(2, Orig, false), Lit(b" -> "), Id(1, Obf, false), Lit(b"\n")], 13));
c05!(c05_bad_start_without_end, 22, c05_malformed([Lit(b"    "), Num(2, Start), Lit(b":"), Id(2, Ty, false), Lit(b" "), Id(1, Orig, false), Lit(b"() -> "), Id(1, Obf, false), Lit(b"\n")], 19));
c05!(c05_bad_no_type, 17, c05_malformed([Lit(b"    "), Id(2, Orig, false), Lit(b"() -> "), Id(1, Obf, false), Lit(b"\n")], 14));
c05!(c05_bad_no_arrow, 15, c05_malformed([Lit(b"    "), Id(2, Ty, false), Lit(b" "), Id(2, Orig, false), Lit(b"\r\n"), Lit(b"y")], 10));

/// `parse_usize` alone: up to 20 symbolic digits followed by ':' - value on
/// success, error (never a panic or a wrapped value) when it does not fit.
#[kani::proof]
#[kani::stub(core::str::from_utf8, from_utf8_model)]
#[kani::stub(char::is_numeric, is_numeric_model)]
#[kani::unwind(24)]
fn c05_parse_usize_20() {
    let mut buf = [b':'; 21];
    let n: usize = kani::any();
    kani::assume(n >= 1 && n <= 20);
    let mut v: u128 = 0;
    let mut i = 0;
    while i < 20 {
        if i < n {
            let d: u8 = kani::any();
            kani::assume(d <= 9);
            buf[i] = b'0' + d;
            v = v * 10 + d as u128;
        }
        i += 1;
    }
    match parse_usize(&buf[..n + 1]) {
        Ok((x, rest)) => {
            assert!(x as u128 == v, "C05: parse_usize value");
            assert!(rest.len() == 1, "C05: parse_usize rest");
        }
        Err(e) => {
            assert!(v > u64::MAX as u128, "C05: parse_usize rejects a number that fits");
            core::mem::forget(e);
        }
    }
    kani::cover!(v == u64::MAX as u128, "2^64-1 parsed");
    kani::cover!(v > u64::MAX as u128, "overflowing digit run");
}


/// Model validation: `from_utf8_model` agrees with the real `core::str::from_utf8`
/// (accept/reject, and the accepted slice) on every byte string of <= 3 bytes:
/// every 1-, 2- and 3-byte code point class, overlongs, surrogates, truncations.
#[kani::proof]
#[kani::unwind(8)]
fn s_from_utf8_3() {
    let buf: [u8; 3] = kani::any();
    let len: usize = kani::any();
    kani::assume(len <= 3);
    let s = &buf[..len];
    let real = core::str::from_utf8(s);
    let model = from_utf8_model(s);
    assert!(real.is_ok() == model.is_ok(), "model: from_utf8 accept/reject differs");
    if let (Ok(a), Ok(b)) = (real, model) {
        assert!(a.as_ptr() == b.as_ptr() && a.len() == b.len(), "model: from_utf8 slice differs");
    }
    kani::cover!(len == 3 && buf[0] == 0xE2 && real.is_ok(), "3-byte character accepted");
    kani::cover!(len == 3 && buf[0] == 0xED && buf[1] == 0xA0 && real.is_err(), "surrogate rejected");
}
