//! Harnesses living inside `crate::cache` (child module: sees private items of
//! `cache/mod.rs`, and the pub(crate) items of `cache::raw`).
#![allow(dead_code, unused_imports, clippy::all)]

use super::raw::{Class, Header, Member, ProguardCache};
use super::*;
use crate::verif_support::spec;

// ---------------------------------------------------------------- a fixed string section
// offset: string
//  0:"a"  2:"p.Out$In"  11:"m"  13:"f"  15:"x.Foo$Bar"  25:"F.java"
// 32:"R8$$SyntheticClass"  51:"g"  53:"I"  55:"b"  57:"B"  59:"n"   (61 bytes)
pub(crate) static STRINGS: [u8; 61] = *b"\x01a\x08p.Out$In\x01m\x01f\x09x.Foo$Bar\x06F.java\x12R8$$SyntheticClass\x01g\x01I\x01b\x01B\x01n";
pub(crate) const S_A: u32 = 0;
pub(crate) const S_FRAME_CLASS: u32 = 2;
pub(crate) const S_M: u32 = 11;
pub(crate) const S_F: u32 = 13;
pub(crate) const S_FOREIGN: u32 = 15;
pub(crate) const S_FILE: u32 = 25;
pub(crate) const S_SYNTH: u32 = 32;
pub(crate) const S_G: u32 = 51;
pub(crate) const S_I: u32 = 53;
pub(crate) const S_B: u32 = 55;
pub(crate) const S_BB: u32 = 57;
pub(crate) const S_N: u32 = 59;
pub(crate) const NONE: u32 = u32::MAX;

const FRAME_CLASS: &str = "p.Out$In";
const FOREIGN_CLASS: &str = "x.Foo$Bar";
const PLAIN_FILE: &str = "F.java";
const FRAME_FILE: &str = "G.java";

pub(crate) static EMPTY_HEADER: Header = Header { magic: 0x43475250, version: 1, num_classes: 0, num_members: 0, num_members_by_params: 0, string_bytes: 61 };

pub(crate) fn cache_of<'a>(classes: &'a [Class], members: &'a [Member], by_params: &'a [Member], strings: &'a [u8]) -> ProguardCache<'a> {
    ProguardCache { header: &EMPTY_HEADER, classes, members, members_by_params: by_params, string_bytes: strings }
}

fn str_eq(a: &str, b: &str) -> bool {
    a.len() == b.len() && a.as_bytes() == b.as_bytes()
}

fn opt_str_eq(a: Option<&str>, b: Option<&str>) -> bool {
    match (a, b) {
        (None, None) => true,
        (Some(x), Some(y)) => str_eq(x, y),
        _ => false,
    }
}

/// Stub for the cache's `extract_class_name` in multi-entry harnesses (see the
/// twin in harness/mapper.rs for why).
fn extract_class_name_stub(_full_path: &str) -> Option<&str> {
    Some("<stub>")
}

/// A member entry of the concrete string shape `shape` (3*foreign + file kind,
/// file kind 0 none / 1 plain / 2 synthetic marker); numeric fields symbolic.
fn member_of_shape(shape: u8) -> Member {
    Member {
        obfuscated_name_offset: S_M,
        startline: kani::any(),
        endline: kani::any(),
        original_class_offset: if shape / 3 == 1 { S_FOREIGN } else { NONE },
        original_file_offset: match shape % 3 {
            0 => NONE,
            1 => S_FILE,
            _ => S_SYNTH,
        },
        original_name_offset: S_F,
        original_startline: kani::any(),
        original_endline: kani::any(),
        params_offset: NONE,
    }
}

fn shape_class(shape: u8) -> Option<&'static str> {
    if shape / 3 == 1 {
        Some(FOREIGN_CLASS)
    } else {
        None
    }
}

fn shape_file(shape: u8) -> Option<&'static str> {
    match shape % 3 {
        0 => None,
        1 => Some(PLAIN_FILE),
        _ => Some(spec::SYNTHETIC_MARKER),
    }
}

/// What the writer stores for a method record (documented encoding):
/// no usable range -> (0, 0, 0, MAX); otherwise both ends > 0; and, in the
/// property's domain, every printed number is < 2^32-1 so only the sentinel
/// equals u32::MAX.
fn writer_invariant(m: &Member) -> bool {
    if m.endline == 0 {
        m.startline == 0 && m.original_startline == 0 && m.original_endline == u32::MAX
    } else {
        m.startline > 0 && m.startline < u32::MAX && m.endline < u32::MAX && m.original_startline < u32::MAX
    }
}

fn to_entry(m: &Member) -> spec::Entry {
    spec::Entry {
        range: if m.endline > 0 { Some((m.startline as u64, m.endline as u64)) } else { None },
        os: m.original_startline as u64,
        oe: if m.original_endline == u32::MAX { None } else { Some(m.original_endline as u64) },
    }
}

/// C01 (cache kernel), inductive step over K entries (see harness/mapper.rs::c01_step).
fn c01_cache_step<const K: usize>(ents: [Member; K], shapes: [u8; K]) {
    let mut i = 0;
    while i < K {
        kani::assume(writer_invariant(&ents[i]));
        i += 1;
    }
    let cache = cache_of(&[], &[], &[], &STRINGS);
    let line: usize = kani::any();
    let frame_file = if kani::any() { Some(FRAME_FILE) } else { None };
    let mut frame = StackFrame { class: FRAME_CLASS, method: "m", line, file: frame_file, parameters: None };
    let mut it = ents.iter();
    let got = iterate_with_lines(&cache, &mut frame, &mut it);
    let rest = it.as_slice().len();
    let mut found = false;
    i = 0;
    while i < K {
        if !found && spec::applies(&to_entry(&ents[i]), line as u64) {
            found = true;
            let e = &ents[i];
            let g = match &got {
                Some(g) => g,
                None => panic!("C01: applying entry dropped (cache)"),
            };
            assert!(rest == K - i - 1, "C01: cache iterator not positioned after the first applying entry");
            assert!(str_eq(g.class, shape_class(shapes[i]).unwrap_or(FRAME_CLASS)), "C01: class (cache)");
            assert!(str_eq(g.method, "f"), "C01: method (cache)");
            if let Some(l) = spec::orig_line(&to_entry(e), line as u64) {
                assert!(g.line as u64 == l, "C01: original line (cache)");
            }
            let want_file = spec::orig_file(shape_file(shapes[i]), shape_class(shapes[i]), FRAME_CLASS, frame_file);
            assert!(opt_str_eq(g.file, want_file), "C01: file (cache)");
            assert!(g.parameters.is_none());
        }
        i += 1;
    }
    if !found {
        assert!(got.is_none(), "C01: frame produced although no entry applies (cache)");
        assert!(rest == 0);
    }
    kani::cover!(found && rest == 0, "last entry is the first applying one");
    kani::cover!(!found, "no entry applies");
    kani::cover!(found && ents[0].endline > ents[0].startline && line > ents[0].startline as usize && line < ents[0].endline as usize
        && ents[0].original_endline != u32::MAX && ents[0].original_endline != ents[0].original_startline, "interior line, offset rule");
    kani::cover!(K > 0 && ents[0].endline == 0, "entry without usable range");
    kani::cover!(line == usize::MAX, "line 2^64-1");
}

macro_rules! c01_c1 {
    ($name:ident, $shape:expr) => {
        #[kani::proof]
        #[kani::stub(watto::StringTable::read, crate::verif_support::stubs::strtab_read_model)]
        #[kani::unwind(20)]
        fn $name() {
            c01_cache_step::<1>([member_of_shape($shape)], [$shape]);
        }
    };
}
c01_c1!(c01_cache_kernel_1_own_nofile, 0);
c01_c1!(c01_cache_kernel_1_own_file, 1);
c01_c1!(c01_cache_kernel_1_own_synth, 2);
c01_c1!(c01_cache_kernel_1_foreign_nofile, 3);
c01_c1!(c01_cache_kernel_1_foreign_file, 4);
c01_c1!(c01_cache_kernel_1_foreign_synth, 5);

#[kani::proof]
#[kani::stub(watto::StringTable::read, crate::verif_support::stubs::strtab_read_model)]
#[kani::stub(crate::cache::extract_class_name, extract_class_name_stub)]
#[kani::unwind(20)]
fn c01_cache_step_2_a() {
    c01_cache_step::<2>([member_of_shape(0), member_of_shape(3)], [0, 3]);
}

#[kani::proof]
#[kani::stub(watto::StringTable::read, crate::verif_support::stubs::strtab_read_model)]
#[kani::stub(crate::cache::extract_class_name, extract_class_name_stub)]
#[kani::unwind(20)]
fn c01_cache_step_2_b() {
    c01_cache_step::<2>([member_of_shape(4), member_of_shape(0)], [4, 0]);
}

#[kani::proof]
#[kani::stub(watto::StringTable::read, crate::verif_support::stubs::strtab_read_model)]
#[kani::stub(crate::cache::extract_class_name, extract_class_name_stub)]
#[kani::unwind(20)]
fn c01_cache_step_3() {
    c01_cache_step::<3>([member_of_shape(3), member_of_shape(0), member_of_shape(1)], [3, 0, 1]);
}

/// C03 (cache kernel): iterate_without_lines yields one frame per entry, class rule, line 0, no file.
#[kani::proof]
#[kani::stub(watto::StringTable::read, crate::verif_support::stubs::strtab_read_model)]
#[kani::unwind(20)]
fn c03_cache_without_lines_kernel() {
    let ents = [member_of_shape(0), member_of_shape(4)];
    let cache = cache_of(&[], &[], &[], &STRINGS);
    let mut frame = StackFrame { class: FRAME_CLASS, method: "m", line: kani::any(), file: Some(FRAME_FILE), parameters: Some("I") };
    let mut it = ents.iter();
    let g0 = iterate_without_lines(&cache, &mut frame, &mut it).unwrap();
    assert!(str_eq(g0.class, FRAME_CLASS) && str_eq(g0.method, "f") && g0.line == 0 && g0.file.is_none(), "C03: first frame (cache)");
    assert!(g0.parameters == Some("I"));
    let g1 = iterate_without_lines(&cache, &mut frame, &mut it).unwrap();
    assert!(str_eq(g1.class, FOREIGN_CLASS) && str_eq(g1.method, "f") && g1.line == 0 && g1.file.is_none(), "C03: second frame (cache)");
    assert!(iterate_without_lines(&cache, &mut frame, &mut it).is_none(), "C03: extra frame (cache)");
}

// ---------------------------------------------------------------- C02: mapper kernel vs cache kernel

/// C02 (kernel differential): for one abstract entry in the representable
/// domain, encoded for the mapper (Option) and for the cache (u32::MAX
/// sentinel, string offsets), both real kernels produce the same frame for
/// every frame line, with and without a frame file, by line and by parameters.
fn c02_kernel_diff(shape: u8, by_params: bool) {
    let s: u32 = kani::any();
    let e: u32 = kani::any();
    let os: u32 = kani::any();
    let has_oe: bool = kani::any();
    let oe: u32 = kani::any();
    // representable domain: numbers < 2^32-1; "no range" encoded as all-zero
    kani::assume(s < u32::MAX && e < u32::MAX && os < u32::MAX && oe < u32::MAX);
    let no_range = e == 0;
    if no_range {
        kani::assume(s == 0 && os == 0 && !has_oe);
    } else {
        kani::assume(s > 0);
    }
    let m = Member {
        obfuscated_name_offset: S_M,
        startline: s,
        endline: e,
        original_class_offset: if shape / 3 == 1 { S_FOREIGN } else { NONE },
        original_file_offset: match shape % 3 {
            0 => NONE,
            1 => S_FILE,
            _ => S_SYNTH,
        },
        original_name_offset: S_F,
        original_startline: os,
        original_endline: if has_oe { oe } else { u32::MAX },
        params_offset: NONE,
    };
    let line: usize = kani::any();
    let frame_file = if kani::any() { Some(FRAME_FILE) } else { None };
    let params = if by_params { Some("I") } else { None };
    let cache = cache_of(&[], &[], &[], &STRINGS);
    let ents = [m];
    let mut it = ents.iter();
    let mut f1 = StackFrame { class: FRAME_CLASS, method: "m", line, file: frame_file, parameters: params };
    let c = if by_params { iterate_without_lines(&cache, &mut f1, &mut it) } else { iterate_with_lines(&cache, &mut f1, &mut it) };
    let mut f2 = StackFrame { class: FRAME_CLASS, method: "m", line, file: frame_file, parameters: params };
    let mp = crate::mapper::verif_harness::mapper_step_one(
        s as usize, e as usize, shape_class(shape), shape_file(shape), "f", os as usize,
        if has_oe { Some(oe as usize) } else { None }, &mut f2);
    match (&c, &mp) {
        (None, None) => {}
        (Some(a), Some(b)) => {
            assert!(str_eq(a.class, b.class), "C02: class differs");
            assert!(str_eq(a.method, b.method), "C02: method differs");
            assert!(a.line == b.line, "C02: line differs");
            assert!(opt_str_eq(a.file, b.file), "C02: file differs");
            assert!(a.parameters == b.parameters, "C02: parameters differ");
        }
        _ => panic!("C02: one kernel produced a frame, the other did not"),
    }
    kani::cover!(c.is_some() && !no_range);
    kani::cover!(c.is_none());
}

macro_rules! c02_k {
    ($name:ident, $shape:expr, $bp:expr) => {
        #[kani::proof]
        #[kani::stub(watto::StringTable::read, crate::verif_support::stubs::strtab_read_model)]
        #[kani::unwind(20)]
        fn $name() {
            c02_kernel_diff($shape, $bp);
        }
    };
}
c02_k!(c02_kernel_diff_own_nofile, 0, false);
c02_k!(c02_kernel_diff_own_file, 1, false);
c02_k!(c02_kernel_diff_own_synth, 2, false);
c02_k!(c02_kernel_diff_foreign_nofile, 3, false);
c02_k!(c02_kernel_diff_foreign_file, 4, false);
c02_k!(c02_kernel_diff_foreign_synth, 5, false);

#[kani::proof]
#[kani::stub(watto::StringTable::read, crate::verif_support::stubs::strtab_read_model)]
#[kani::unwind(20)]
fn c02_kernel_diff_params_own() {
    // by-parameters kernels ignore lines; cover is only the Some case
    let s: u32 = kani::any();
    let m = Member { obfuscated_name_offset: S_M, startline: s, endline: kani::any(), original_class_offset: NONE, original_file_offset: S_FILE,
        original_name_offset: S_F, original_startline: kani::any(), original_endline: kani::any(), params_offset: S_I };
    let cache = cache_of(&[], &[], &[], &STRINGS);
    let ents = [m];
    let mut it = ents.iter();
    let line: usize = kani::any();
    let mut f1 = StackFrame { class: FRAME_CLASS, method: "m", line, file: Some(FRAME_FILE), parameters: Some("I") };
    let a = iterate_without_lines(&cache, &mut f1, &mut it).unwrap();
    let mut f2 = StackFrame { class: FRAME_CLASS, method: "m", line, file: Some(FRAME_FILE), parameters: Some("I") };
    let b = crate::mapper::verif_harness::mapper_step_one(s as usize, 0, None, Some(PLAIN_FILE), "f", 0, None, &mut f2).unwrap();
    assert!(str_eq(a.class, b.class) && str_eq(a.method, b.method) && a.line == b.line && opt_str_eq(a.file, b.file) && a.parameters == b.parameters, "C02: by-params kernels differ");
}

#[kani::proof]
#[kani::stub(watto::StringTable::read, crate::verif_support::stubs::strtab_read_model)]
#[kani::unwind(20)]
fn c02_kernel_diff_params_foreign() {
    let m = Member { obfuscated_name_offset: S_M, startline: kani::any(), endline: kani::any(), original_class_offset: S_FOREIGN, original_file_offset: NONE,
        original_name_offset: S_F, original_startline: kani::any(), original_endline: kani::any(), params_offset: S_I };
    let cache = cache_of(&[], &[], &[], &STRINGS);
    let ents = [m];
    let mut it = ents.iter();
    let mut f1 = StackFrame { class: FRAME_CLASS, method: "m", line: 0, file: None, parameters: Some("I") };
    let a = iterate_without_lines(&cache, &mut f1, &mut it).unwrap();
    let mut f2 = StackFrame { class: FRAME_CLASS, method: "m", line: 0, file: None, parameters: Some("I") };
    let b = crate::mapper::verif_harness::mapper_step_one(1, 1, Some(FOREIGN_CLASS), None, "f", 0, None, &mut f2).unwrap();
    assert!(str_eq(a.class, b.class) && str_eq(a.method, b.method) && a.line == b.line && opt_str_eq(a.file, b.file) && a.parameters == b.parameters, "C02: by-params kernels differ");
}

// ---------------------------------------------------------------- C04: lookups on a hand-built image

/// Four classes sorted by obfuscated name as the writer's BTreeMap<&str,_> sorts them
/// (byte order): "a" < "a$" < "a." < "b". Originals "A0".."A3".
static C04_STRINGS: [u8; 24] = *b"\x01a\x02a$\x02a.\x01b\x02A0\x02A1\x02A2\x02A3\x01m";
const C04_OBF: [u32; 4] = [0, 2, 5, 8];
const C04_ORIG: [u32; 4] = [10, 13, 16, 19];
const C04_ORIG_STR: [&str; 4] = ["A0", "A1", "A2", "A3"];
const C04_OBF_STR: [&str; 4] = ["a", "a$", "a.", "b"];

fn c04_classes() -> [Class; 4] {
    let mk = |i: usize| Class { obfuscated_name_offset: C04_OBF[i], original_name_offset: C04_ORIG[i], file_name_offset: NONE,
        members_offset: 0, members_len: 0, members_by_params_offset: 0, members_by_params_len: 0 };
    [mk(0), mk(1), mk(2), mk(3)]
}

/// C04 (cache): class lookup is exact for every query string of QLEN bytes over
/// an adversarial alphabet {a, b, $, ., A, 0, m} (prefixes, '$'/'.' variants).
/// The query *length* is concrete per harness (a symbolic length costs 350 s).
fn c04_class_lookup<const QLEN: usize, const NC: usize>() {
    let classes = c04_classes();
    // NC == 2: only "a" and "a$" (binary search reads the second class at a symbolic
    // index from the third probe on; with 4 classes symex alone takes 120 s)
    let cache = cache_of(&classes[..NC], &[], &[], &C04_STRINGS);
    let qb: [u8; QLEN] = kani::any();
    let ok = |c: u8| c == b'a' || c == b'b' || c == b'$' || c == b'.' || c == b'A' || c == b'0' || c == b'm';
    let mut i = 0;
    while i < QLEN {
        kani::assume(ok(qb[i]));
        i += 1;
    }
    let q = unsafe { core::str::from_utf8_unchecked(&qb) };
    let got = cache.remap_class(q);
    let mut want: Option<&str> = None;
    i = 0;
    while i < NC {
        if str_eq(q, C04_OBF_STR[i]) {
            want = Some(C04_ORIG_STR[i]);
        }
        i += 1;
    }
    assert!(opt_str_eq(got, want), "C04: cache class lookup not exact");
    // throwable remapping goes through the same lookup
    let t = Throwable { class: q, message: Some("x") };
    let rt = cache.remap_throwable(&t);
    assert!(rt.is_some() == want.is_some(), "C04: remap_throwable disagrees with remap_class");
    kani::cover!(QLEN > 2 || want.is_some());
    kani::cover!(want.is_none());
}

#[kani::proof]
#[kani::stub(watto::StringTable::read, crate::verif_support::stubs::strtab_read_model)]
#[kani::unwind(8)]
fn c04_cache_class_lookup_2classes_q1() {
    c04_class_lookup::<1, 2>();
}

#[kani::proof]
#[kani::stub(watto::StringTable::read, crate::verif_support::stubs::strtab_read_model)]
#[kani::unwind(8)]
fn c04_cache_class_lookup_2classes_q2() {
    c04_class_lookup::<2, 2>();
}

#[kani::proof]
#[kani::stub(watto::StringTable::read, crate::verif_support::stubs::strtab_read_model)]
#[kani::unwind(8)]
fn c04_cache_class_lookup_q1() {
    c04_class_lookup::<1, 4>();
}

#[kani::proof]
#[kani::stub(watto::StringTable::read, crate::verif_support::stubs::strtab_read_model)]
#[kani::unwind(8)]
fn c04_cache_class_lookup_q2() {
    c04_class_lookup::<2, 4>();
}

#[kani::proof]
#[kani::stub(watto::StringTable::read, crate::verif_support::stubs::strtab_read_model)]
#[kani::unwind(8)]
fn c04_cache_class_lookup_q3() {
    c04_class_lookup::<3, 4>();
}

/// C04 (cache): remap_method answers iff class known, >=1 entry with that name,
/// all such entries share the original name; frames agree with the answer.
/// Members of class "a" sorted by obfuscated name: N entries "m" (original
/// names per `names`: 0 -> "f", 1 -> "g") followed by one entry "n".
fn c04_cache_method<const N: usize>(names: [u8; N], symbolic_lines: bool) {
    let mut ms: [Member; 4] = [Member::default(), Member::default(), Member::default(), Member::default()];
    let mut i = 0;
    while i < N {
        // With >=2 agreeing entries the frames of all of them are walked; symbolic range
        // filters there multiply the non-constant second loop iteration (see the C01 step
        // harnesses, which cover the filter) and do not finish, so those shapes use
        // entries without a usable range (always applying).
        ms[i] = if symbolic_lines {
            Member { obfuscated_name_offset: S_M, startline: kani::any(), endline: kani::any(), original_class_offset: NONE, original_file_offset: NONE,
                original_name_offset: if names[i] == 0 { S_F } else { S_G }, original_startline: kani::any(), original_endline: kani::any(), params_offset: NONE }
        } else {
            Member { obfuscated_name_offset: S_M, startline: 0, endline: 0, original_class_offset: NONE, original_file_offset: NONE,
                original_name_offset: if names[i] == 0 { S_F } else { S_G }, original_startline: 0, original_endline: u32::MAX, params_offset: NONE }
        };
        kani::assume(writer_invariant(&ms[i]));
        i += 1;
    }
    ms[N] = Member { obfuscated_name_offset: S_N, startline: 0, endline: 0, original_class_offset: NONE, original_file_offset: NONE,
        original_name_offset: S_I, original_startline: 0, original_endline: u32::MAX, params_offset: NONE };
    let classes = [Class { obfuscated_name_offset: S_A, original_name_offset: S_BB, file_name_offset: NONE, members_offset: 0, members_len: (N + 1) as u32,
        members_by_params_offset: 0, members_by_params_len: 0 }];
    let cache = cache_of(&classes, &ms[..N + 1], &[], &STRINGS);
    let got = cache.remap_method("a", "m");
    let mut agree = true;
    i = 1;
    while i < N {
        if names[i] != names[0] {
            agree = false;
        }
        i += 1;
    }
    if agree {
        let (c, m) = match got {
            Some(x) => x,
            None => panic!("C04: unambiguous method not answered (cache)"),
        };
        assert!(str_eq(c, "B") && str_eq(m, if names[0] == 0 { "f" } else { "g" }), "C04: wrong answer (cache)");
        let frame = StackFrame::new("a", "m", kani::any());
        let mut it = cache.remap_frame(&frame);
        let mut k = 0;
        while k < N {
            if let Some(f) = it.next() {
                assert!(str_eq(f.method, m), "C04: frame disagrees with remap_method (cache)");
                assert!(str_eq(f.class, "B"), "C04: frame class (cache)");
            }
            k += 1;
        }
        assert!(it.next().is_none(), "C04: frames leak into the next method's entries (cache)");
    } else {
        assert!(got.is_none(), "C04: ambiguous method answered (cache)");
    }
    let n = cache.remap_method("a", "n");
    assert!(n.is_some() && str_eq(n.unwrap().1, "I"), "C04: neighbour method (cache)");
    assert!(cache.remap_method("a", "x").is_none() && cache.remap_method("a", "").is_none() && cache.remap_method("a", "mm").is_none(), "C04: unknown method answered (cache)");
    assert!(cache.remap_method("b", "m").is_none(), "C04: unknown class answered (cache)");
    assert!(cache.remap_frame(&StackFrame::new("b", "m", 1)).next().is_none(), "C01: unknown class yields frames (cache)");
    assert!(cache.remap_frame(&StackFrame::new("a", "x", 1)).next().is_none(), "C01: unknown method yields frames (cache)");
}

macro_rules! c04_c {
    ($name:ident, $n:expr, $names:expr, $sym:expr) => {
        #[kani::proof]
        #[kani::stub(watto::StringTable::read, crate::verif_support::stubs::strtab_read_model)]
        #[kani::stub(crate::cache::extract_class_name, extract_class_name_stub)]
        #[kani::unwind(8)]
        fn $name() {
            c04_cache_method::<$n>($names, $sym);
        }
    };
}
c04_c!(c04_cache_f, 1, [0], true);
c04_c!(c04_cache_ff, 2, [0, 0], false);
c04_c!(c04_cache_fg, 2, [0, 1], true);
c04_c!(c04_cache_fff, 3, [0, 0, 0], false);
c04_c!(c04_cache_ffg, 3, [0, 0, 1], true);
c04_c!(c04_cache_gff, 3, [1, 0, 0], true);
c04_c!(c04_cache_fgf, 3, [0, 1, 0], true);

/// find_range_by_binary_search returns exactly the maximal run of `Equal`
/// elements for every comparison table consistent with a sorted slice
/// (Less* Equal* Greater*), for every slice length <= 5.
#[kani::proof]
#[kani::stub(watto::StringTable::read, crate::verif_support::stubs::strtab_read_model)]
#[kani::unwind(8)]
fn c04_cache_find_range() {
    let mk = |i: u32| Member { startline: i, ..Default::default() };
    let ms: [Member; 5] = [mk(0), mk(1), mk(2), mk(3), mk(4)];
    let len: usize = kani::any();
    kani::assume(len <= 5);
    let lo: usize = kani::any();
    let hi: usize = kani::any();
    kani::assume(lo <= hi && hi <= len);
    // element i compares Less if i < lo, Equal if lo <= i < hi, Greater otherwise
    let r = ProguardCache::find_range_by_binary_search(&ms[..len], |m| {
        let i = m.startline as usize;
        if i < lo {
            Ordering::Less
        } else if i < hi {
            Ordering::Equal
        } else {
            Ordering::Greater
        }
    });
    if lo == hi {
        assert!(r.is_none(), "C04: range found although nothing compares equal");
    } else {
        let r = match r {
            Some(r) => r,
            None => panic!("C04: equal run not found"),
        };
        assert!(r.len() == hi - lo, "C04: equal run has wrong length");
        assert!(r[0].startline as usize == lo, "C04: equal run starts at the wrong element");
    }
    kani::cover!(len == 5 && lo == 1 && hi == 4);
    kani::cover!(len == 5 && lo == 0 && hi == 5);
}

// ---------------------------------------------------------------- C08 (cache)

fn c08_cache_fixture() -> ([Class; 1], [Member; 1]) {
    (
        [Class { obfuscated_name_offset: S_A, original_name_offset: S_BB, file_name_offset: NONE, members_offset: 0, members_len: 1, members_by_params_offset: 0, members_by_params_len: 0 }],
        [Member { obfuscated_name_offset: S_M, startline: 1, endline: 5, original_class_offset: NONE, original_file_offset: NONE, original_name_offset: S_F,
            original_startline: 10, original_endline: 14, params_offset: NONE }],
    )
}

/// C08 (cache), throwables and cause chain (see harness/mapper.rs::c08_mapper_chain).
fn c08_cache_chain<const EXC: u8, const C1: u8, const C2: u8>() {
    let (classes, members) = c08_cache_fixture();
    let cache = cache_of(&classes, &members, &[], &STRINGS);
    let msg: Option<&'static str> = if kani::any() { Some("b") } else { None };
    let mk = |k: u8, unknown: &'static str| match k {
        0 => None,
        1 => Some(Throwable { class: "a", message: msg }),
        _ => Some(Throwable { class: unknown, message: msg }),
    };
    let level2 = if C2 != 0 { Some(Box::new(StackTrace { exception: mk(C2, "y2"), frames: vec![], cause: None })) } else { None };
    let level1 = if C1 != 0 { Some(Box::new(StackTrace { exception: mk(C1, "y1"), frames: vec![], cause: level2 })) } else { None };
    let trace = StackTrace { exception: mk(EXC, "zz"), frames: vec![], cause: level1 };
    let out = cache.remap_stacktrace_typed(&trace);
    let check = |k: u8, unknown: &str, o: &Option<Throwable>| match (k, o) {
        (0, None) => {}
        (0, Some(_)) => panic!("C08: throwable invented (cache)"),
        (_, None) => panic!("C08: throwable dropped by typed remapping (cache)"),
        (k, Some(o)) => {
            assert!(str_eq(o.class, if k == 1 { "B" } else { unknown }), "C08: throwable class (cache)");
            assert!(o.message == msg, "C08: message lost (cache)");
        }
    };
    check(EXC, "zz", &out.exception);
    assert!(out.frames.len() == 0, "C08: frames invented (cache)");
    assert!(out.cause.is_some() == (C1 != 0), "C08: cause chain depth changed (cache)");
    if let Some(c1) = &out.cause {
        check(C1, "y1", &c1.exception);
        assert!(c1.cause.is_some() == (C2 != 0), "C08: cause chain depth changed (cache, level 2)");
        if let Some(c2) = &c1.cause {
            check(C2, "y2", &c2.exception);
            assert!(c2.cause.is_none(), "C08: cause chain grew (cache)");
        }
    }
    core::mem::forget(out);
    core::mem::forget(trace);
}

macro_rules! c08_cchain {
    ($name:ident, $e:expr, $c1:expr, $c2:expr) => {
        #[kani::proof]
        #[kani::stub(watto::StringTable::read, crate::verif_support::stubs::strtab_read_model)]
        #[kani::stub(crate::cache::extract_class_name, extract_class_name_stub)]
        #[kani::unwind(4)]
        fn $name() {
            c08_cache_chain::<$e, $c1, $c2>();
        }
    };
}
c08_cchain!(c08_cache_chain_none, 0, 0, 0);
c08_cchain!(c08_cache_chain_known, 1, 0, 0);
c08_cchain!(c08_cache_chain_unknown, 2, 0, 0);
c08_cchain!(c08_cache_chain_known_unknown_known, 1, 2, 1);
c08_cchain!(c08_cache_chain_unknown_known_unknown, 2, 1, 2);

fn c08_cache_small<const LEAD: bool>() {
    let (classes, members) = c08_cache_fixture();
    let cache = cache_of(&classes, &members, &[], &STRINGS);
    let l: usize = kani::any();
    let frames = if LEAD {
        vec![StackFrame::with_file("q", "m", 7, "U"), StackFrame::with_file("a", "m", l, "S")]
    } else {
        vec![StackFrame::with_file("a", "m", l, "S")]
    };
    let k = if LEAD { 1 } else { 0 };
    let trace = StackTrace { exception: None, frames, cause: None };
    let out = cache.remap_stacktrace_typed(&trace);
    assert!(out.frames.len() == k + 1, "C08: frame count (cache)");
    if LEAD {
        assert!(out.frames[0] == trace.frames[0], "C08: unresolved leading frame not kept unchanged (cache)");
    }
    if l >= 1 && l <= 5 {
        assert!(str_eq(out.frames[k].class, "B") && str_eq(out.frames[k].method, "f"), "C08: remapped frame (cache)");
        assert!(out.frames[k].line == 10 + l - 1, "C08: remapped line (cache)");
    } else {
        assert!(out.frames[k] == trace.frames[k], "C08: unresolved frame not kept unchanged (cache)");
    }
    core::mem::forget(out);
    core::mem::forget(trace);
}

#[kani::proof]
#[kani::stub(watto::StringTable::read, crate::verif_support::stubs::strtab_read_model)]
#[kani::stub(crate::cache::extract_class_name, extract_class_name_stub)]
#[kani::unwind(4)]
fn c08_cache_one_frame() {
    c08_cache_small::<false>();
}

#[kani::proof]
#[kani::stub(watto::StringTable::read, crate::verif_support::stubs::strtab_read_model)]
#[kani::stub(crate::cache::extract_class_name, extract_class_name_stub)]
#[kani::unwind(4)]
fn c08_cache_two_frames() {
    c08_cache_small::<true>();
}

// ---------------------------------------------------------------- C12: corrupted images never panic

/// A member entry whose *every* field is arbitrary (what a corrupted file holds).
fn any_member() -> Member {
    Member {
        obfuscated_name_offset: kani::any(),
        startline: kani::any(),
        endline: kani::any(),
        original_class_offset: kani::any(),
        original_file_offset: kani::any(),
        original_name_offset: kani::any(),
        original_startline: kani::any(),
        original_endline: kani::any(),
        params_offset: kani::any(),
    }
}

/// Is `sub` a sub-slice of `whole` (pointer range check inside one object)?
fn within(whole: &[u8], sub: &str) -> bool {
    if sub.is_empty() {
        return true;
    }
    let w0 = whole.as_ptr() as usize;
    let s0 = sub.as_ptr() as usize;
    s0 >= w0 && s0 + sub.len() <= w0 + whole.len()
}

/// C12 (frame kernels): with *arbitrary* numeric fields (no writer invariant:
/// what a corrupted file holds) and string offsets of a fixed corruption shape,
/// both cache frame iterators return without panic or arithmetic overflow for
/// every frame line, and every string they return is a slice of the string
/// section or of the query. Default Kani checks (overflow, bounds, pointer
/// validity) are on. Offsets are concrete per harness (symbolic offsets make
/// the string reads' loop bounds symbolic: 30 min, not finished), numbers are
/// fully symbolic.
/// OOB = 61 (== section length), MID = 5 (inside "p.Out$In": reads the byte O = 79 as a length, which is out of bounds).
const OOB: u32 = 61;
const MID: u32 = 5;

fn c12_kernel(class_off: u32, file_off: u32, name_off: u32, by_params: bool, unreadable: bool) {
    let mut m = any_member();
    m.obfuscated_name_offset = S_M;
    m.original_class_offset = class_off;
    m.original_file_offset = file_off;
    m.original_name_offset = name_off;
    m.params_offset = NONE;
    let ents = [m];
    let cache = cache_of(&[], &[], &[], &STRINGS);
    let line: usize = kani::any();
    let mut frame = StackFrame { class: FRAME_CLASS, method: "m", line, file: Some(FRAME_FILE), parameters: if by_params { Some("I") } else { None } };
    let mut it = ents.iter();
    let r = if by_params { iterate_without_lines(&cache, &mut frame, &mut it) } else { iterate_with_lines(&cache, &mut frame, &mut it) };
    if let Some(f) = &r {
        assert!(within(&STRINGS, f.class) || f.class.as_ptr() == FRAME_CLASS.as_ptr(), "C12: class string from nowhere");
        assert!(within(&STRINGS, f.method), "C12: method string from nowhere");
        if let Some(file) = f.file {
            assert!(within(&STRINGS, file) || file.as_ptr() == FRAME_FILE.as_ptr() || within(FRAME_CLASS.as_bytes(), file), "C12: file string from nowhere");
        }
        assert!(!unreadable, "C12: frame produced from an unreadable string");
        kani::cover!(by_params || f.line == usize::MAX, "saturated line");
    }
    kani::cover!(r.is_some() != unreadable, "expected outcome reached");
    kani::cover!(ents[0].endline == 0 && ents[0].startline > 0 && ents[0].original_endline != u32::MAX, "inconsistent range fields");
}

macro_rules! c12_k {
    ($name:ident, $c:expr, $f:expr, $n:expr, $bp:expr, $un:expr) => {
        #[kani::proof]
        #[kani::stub(watto::StringTable::read, crate::verif_support::stubs::strtab_read_model)]
        #[kani::unwind(24)]
        fn $name() {
            c12_kernel($c, $f, $n, $bp, $un);
        }
    };
}
c12_k!(c12_kernel_plain, NONE, NONE, S_F, false, false);
c12_k!(c12_kernel_foreign_synth, S_FOREIGN, S_SYNTH, S_F, false, false);
c12_k!(c12_kernel_bad_class, OOB, S_FILE, S_F, false, false);
c12_k!(c12_kernel_bad_file, NONE, MID, S_F, false, true);
c12_k!(c12_kernel_bad_name, S_FOREIGN, NONE, OOB, false, true);
c12_k!(c12_kernel_params_bad_class, MID, NONE, S_F, true, false);
c12_k!(c12_kernel_params_bad_name, NONE, NONE, MID, true, true);

/// C12: `get_class_members` / `get_class_members_by_params` with arbitrary
/// offset and length never panic and return a sub-slice of the section (or None).
#[kani::proof]
#[kani::unwind(5)]
fn c12_class_member_ranges() {
    let ms: [Member; 4] = [Member::default(), Member::default(), Member::default(), Member::default()];
    // the two sections have independent lengths (a bound taken from the wrong section must show)
    let n: usize = kani::any();
    let np: usize = kani::any();
    kani::assume(n <= 4 && np <= 4);
    let class = Class {
        obfuscated_name_offset: 0,
        original_name_offset: 0,
        file_name_offset: NONE,
        members_offset: kani::any(),
        members_len: kani::any(),
        members_by_params_offset: kani::any(),
        members_by_params_len: kani::any(),
    };
    let cache = cache_of(&[], &ms[..n], &ms[..np], &STRINGS);
    if let Some(s) = cache.get_class_members(&class) {
        assert!(s.len() == class.members_len as usize && class.members_offset as usize + s.len() <= n, "C12: member range outside the section");
    } else {
        assert!(class.members_offset as u64 + class.members_len as u64 > n as u64, "C12: valid member range refused");
    }
    if let Some(s) = cache.get_class_members_by_params(&class) {
        assert!(s.len() == class.members_by_params_len as usize && class.members_by_params_offset as usize + s.len() <= np, "C12: by-params range outside the section");
    } else {
        assert!(class.members_by_params_offset as u64 + class.members_by_params_len as u64 > np as u64, "C12: valid by-params range refused");
    }
    kani::cover!(class.members_offset == u32::MAX && class.members_len == u32::MAX, "extreme offset and length");
    kani::cover!(np < n && class.members_by_params_offset as usize + class.members_by_params_len as usize == n, "by-params range that would fit the members section only");
}

/// C12: `find_range_by_binary_search` with an *arbitrary* (inconsistent, not
/// sorted) comparison table stays inside the slice and never panics.
#[kani::proof]
#[kani::unwind(8)]
fn c12_find_range_arbitrary_order() {
    let mk = |i: u32| Member { startline: i, ..Default::default() };
    let ms: [Member; 4] = [mk(0), mk(1), mk(2), mk(3)];
    let len: usize = kani::any();
    kani::assume(len <= 4);
    let table: [u8; 4] = kani::any();
    let r = ProguardCache::find_range_by_binary_search(&ms[..len], |m| match table[m.startline as usize] % 3 {
        0 => Ordering::Less,
        1 => Ordering::Equal,
        _ => Ordering::Greater,
    });
    if let Some(r) = r {
        assert!(r.len() <= len, "C12: range longer than the slice");
    }
    kani::cover!(r.is_some() && table[0] % 3 == 2 && table[3] % 3 == 0, "inconsistent order with a match");
}

// ---------------------------------------------------------------- C10: pinned 5.5.0 reader == current reader
use crate::verif_pinned as pinned;

fn pinned_member(m: &Member) -> pinned::raw::Member {
    pinned::raw::Member {
        obfuscated_name_offset: m.obfuscated_name_offset,
        startline: m.startline,
        endline: m.endline,
        original_class_offset: m.original_class_offset,
        original_file_offset: m.original_file_offset,
        original_name_offset: m.original_name_offset,
        original_startline: m.original_startline,
        original_endline: m.original_endline,
        params_offset: m.params_offset,
    }
}

static PINNED_HEADER: pinned::raw::Header = pinned::raw::Header { magic: 0x43475250, version: 1, num_classes: 0, num_members: 0, num_members_by_params: 0, string_bytes: 61 };

fn frames_eq(a: &Option<StackFrame>, b: &Option<StackFrame>) -> bool {
    match (a, b) {
        (None, None) => true,
        (Some(a), Some(b)) => str_eq(a.class, b.class) && str_eq(a.method, b.method) && a.line == b.line && opt_str_eq(a.file, b.file) && a.parameters == b.parameters,
        _ => false,
    }
}

/// C10 (reader half, frame kernels): on every member entry a version-1 writer
/// can have produced (documented encoding, numbers < 2^32-1) the pinned 5.5.0
/// reader and the current reader give the same frame, for every frame line, by
/// line and by parameters. A change of sentinel, field meaning or line rule in
/// the current reader without a version bump makes the two disagree.
fn c10_kernel_diff(shape: u8, by_params: bool) {
    let m = member_of_shape(shape);
    kani::assume(writer_invariant(&m));
    kani::assume(m.original_endline == u32::MAX || m.original_endline < u32::MAX - 1);
    let pm = pinned_member(&m);
    let line: usize = kani::any();
    // the pinned reader computes `original_startline + line - startline` unchecked; lines far
    // beyond 2^32 overflow there (a fixed defect), so the common domain is line < 2^63
    kani::assume(line < (1usize << 63));
    let frame_file = if kani::any() { Some(FRAME_FILE) } else { None };
    let params = if by_params { Some("I") } else { None };
    let cache = cache_of(&[], &[], &[], &STRINGS);
    let pcache = pinned::raw::ProguardCache { header: &PINNED_HEADER, classes: &[], members: &[], members_by_params: &[], string_bytes: &STRINGS };
    let ents = [m];
    let pents = [pm];
    let mut it = ents.iter();
    let mut pit = pents.iter();
    let mut f1 = StackFrame { class: FRAME_CLASS, method: "m", line, file: frame_file, parameters: params };
    let mut f2 = StackFrame { class: FRAME_CLASS, method: "m", line, file: frame_file, parameters: params };
    let (a, b) = if by_params {
        (iterate_without_lines(&cache, &mut f1, &mut it), pinned::iterate_without_lines(&pcache, &mut f2, &mut pit))
    } else {
        (iterate_with_lines(&cache, &mut f1, &mut it), pinned::iterate_with_lines(&pcache, &mut f2, &mut pit))
    };
    assert!(frames_eq(&a, &b), "C10: the current reader answers a version-1 entry differently from the pinned 5.5.0 reader");
    kani::cover!(a.is_some() && ents[0].endline > ents[0].startline, "multi-line range applies");
    kani::cover!(a.is_none() || by_params, "entry filtered out");
}

macro_rules! c10_k {
    ($name:ident, $shape:expr, $bp:expr) => {
        #[kani::proof]
        #[kani::stub(watto::StringTable::read, crate::verif_support::stubs::strtab_read_model)]
        #[kani::unwind(20)]
        fn $name() {
            c10_kernel_diff($shape, $bp);
        }
    };
}
c10_k!(c10_kernel_diff_own_nofile, 0, false);
c10_k!(c10_kernel_diff_own_file, 1, false);
c10_k!(c10_kernel_diff_own_synth, 2, false);
c10_k!(c10_kernel_diff_foreign_nofile, 3, false);
c10_k!(c10_kernel_diff_foreign_file, 4, false);
c10_k!(c10_kernel_diff_foreign_synth, 5, false);
c10_k!(c10_kernel_diff_params_own, 1, true);
c10_k!(c10_kernel_diff_params_foreign, 3, true);

/// C10 (reader half, parse): on every buffer the pinned and the current parser
/// give the same verdict: the same error kind, or the same section split.
#[kani::proof]
fn c10_parse_diff_96() {
    let buf: super::raw::verif_harness::Aligned<96> = super::raw::verif_harness::Aligned(kani::any());
    let len: usize = kani::any();
    kani::assume(len <= 96);
    let data = &buf.0[..len];
    let a = ProguardCache::parse(data);
    let b = pinned::raw::ProguardCache::parse(data);
    match (a, b) {
        (Ok(c), Ok(p)) => {
            assert!(c.classes.len() == p.classes.len() && c.members.len() == p.members.len() && c.members_by_params.len() == p.members_by_params.len(), "C10: section counts differ");
            assert!(c.classes.as_ptr() as usize == p.classes.as_ptr() as usize && c.members.as_ptr() as usize == p.members.as_ptr() as usize
                && c.members_by_params.as_ptr() as usize == p.members_by_params.as_ptr() as usize, "C10: section offsets differ");
            assert!(c.string_bytes.as_ptr() == p.string_bytes.as_ptr() && c.string_bytes.len() == p.string_bytes.len(), "C10: string section differs");
            kani::cover!(c.classes.len() == 1 && c.members.len() == 1, "image with a class and a member accepted by both");
        }
        (Err(e1), Err(e2)) => {
            let (k1, k2) = (e1.kind(), e2.kind());
            core::mem::forget(e1);
            core::mem::forget(e2);
            assert!(k1 == k2, "C10: the two readers reject with different error kinds");
            kani::cover!(k1 == CacheErrorKind::WrongVersion, "both reject a wrong version");
        }
        (Ok(_), Err(e)) => {
            core::mem::forget(e);
            panic!("C10: the current reader accepts a file the pinned reader rejects");
        }
        (Err(e), Ok(_)) => {
            core::mem::forget(e);
            panic!("C10: the current reader rejects a file the pinned reader accepts");
        }
    }
}

/// C10 (reader half, lookups): member-range slicing and range search agree.
#[kani::proof]
#[kani::unwind(8)]
fn c10_lookup_diff() {
    let mk = |i: u32| Member { startline: i, ..Default::default() };
    let ms: [Member; 4] = [mk(0), mk(1), mk(2), mk(3)];
    let pms: [pinned::raw::Member; 4] = [pinned_member(&ms[0]), pinned_member(&ms[1]), pinned_member(&ms[2]), pinned_member(&ms[3])];
    let len: usize = kani::any();
    kani::assume(len <= 4);
    let lo: usize = kani::any();
    let hi: usize = kani::any();
    kani::assume(lo <= hi && hi <= len);
    let ord = |i: usize| if i < lo { Ordering::Less } else if i < hi { Ordering::Equal } else { Ordering::Greater };
    let a = ProguardCache::find_range_by_binary_search(&ms[..len], |m| ord(m.startline as usize));
    let b = pinned::raw::ProguardCache::find_range_by_binary_search(&pms[..len], |m| ord(m.startline as usize));
    match (a, b) {
        (None, None) => {}
        (Some(x), Some(y)) => assert!(x.len() == y.len() && x[0].startline == y[0].startline, "C10: range search differs"),
        _ => panic!("C10: range search differs"),
    }
    let class = Class { obfuscated_name_offset: 0, original_name_offset: 0, file_name_offset: NONE, members_offset: kani::any(), members_len: kani::any(), members_by_params_offset: kani::any(), members_by_params_len: kani::any() };
    let pclass = pinned::raw::Class { obfuscated_name_offset: 0, original_name_offset: 0, file_name_offset: NONE, members_offset: class.members_offset, members_len: class.members_len,
        members_by_params_offset: class.members_by_params_offset, members_by_params_len: class.members_by_params_len };
    let cache = cache_of(&[], &ms[..len], &ms[..len], &STRINGS);
    let pcache = pinned::raw::ProguardCache { header: &PINNED_HEADER, classes: &[], members: &pms[..len], members_by_params: &pms[..len], string_bytes: &STRINGS };
    assert!(cache.get_class_members(&class).map(|s| s.len()) == pcache.get_class_members(&pclass).map(|s| s.len()), "C10: member range slicing differs");
    assert!(cache.get_class_members_by_params(&class).map(|s| s.len()) == pcache.get_class_members_by_params(&pclass).map(|s| s.len()), "C10: by-params range slicing differs");
}

