//! Harnesses living inside `crate::cache::raw` (child module: sees private items).
#![allow(dead_code, unused_imports, clippy::all)]

use super::*;
use crate::cache::{CacheError, CacheErrorKind};

#[repr(C, align(8))]
pub(crate) struct Aligned<const N: usize>(pub [u8; N]);

fn le32(b: &[u8], off: usize) -> u32 {
    u32::from_le_bytes([b[off], b[off + 1], b[off + 2], b[off + 3]])
}

fn up8(x: u64) -> u64 {
    (x + 7) & !7u64
}

/// Reference reading of the documented layout (src/cache/mod.rs:1-34 and the
/// header struct): which error kind, or the offset of the string section.
pub(crate) fn spec_parse(buf: &[u8]) -> Result<(u32, u32, u32, u64), CacheErrorKind> {
    let len = buf.len() as u64;
    if len < 24 {
        return Err(CacheErrorKind::InvalidHeader);
    }
    let magic = le32(buf, 0);
    if magic == u32::from_le_bytes(*b"CGRP") {
        return Err(CacheErrorKind::WrongEndianness);
    }
    if magic != u32::from_le_bytes(*b"PRGC") {
        return Err(CacheErrorKind::WrongFormat);
    }
    if le32(buf, 4) != 1 {
        return Err(CacheErrorKind::WrongVersion);
    }
    let nc = le32(buf, 8);
    let nm = le32(buf, 12);
    let nmp = le32(buf, 16);
    let sb = le32(buf, 20);
    let mut off = 24u64;
    off += 28 * nc as u64;
    if off > len {
        return Err(CacheErrorKind::InvalidClasses);
    }
    off = up8(off);
    if off > len {
        return Err(CacheErrorKind::InvalidMembers);
    }
    off += 36 * nm as u64;
    if off > len {
        return Err(CacheErrorKind::InvalidMembers);
    }
    off = up8(off);
    if off > len {
        return Err(CacheErrorKind::InvalidMembers);
    }
    off += 36 * nmp as u64;
    if off > len {
        return Err(CacheErrorKind::InvalidMembers);
    }
    off = up8(off);
    if off > len {
        return Err(CacheErrorKind::UnexpectedStringBytes {
            expected: sb as usize,
            found: 0,
        });
    }
    if len - off < sb as u64 {
        return Err(CacheErrorKind::UnexpectedStringBytes {
            expected: sb as usize,
            found: (len - off) as usize,
        });
    }
    Ok((nc, nm, nmp, off))
}

fn kind_of(r: Result<ProguardCache<'_>, CacheError>) -> Result<(), CacheErrorKind> {
    match r {
        Ok(_) => Ok(()),
        Err(e) => {
            let k = e.kind();
            core::mem::forget(e);
            Err(k)
        }
    }
}

/// C11-A: for every buffer of every length <= N and every content, `parse`
/// returns exactly the verdict (error kind incl. payload, or success with the
/// documented section split) of the reference reading of the format.
fn c11_error_kinds_n<const N: usize>() {
    let buf: Aligned<N> = Aligned(kani::any());
    let len: usize = kani::any();
    kani::assume(len <= N);
    let data = &buf.0[..len];
    let want = spec_parse(data);
    match ProguardCache::parse(data) {
        Ok(c) => {
            let (nc, nm, nmp, off) = match want {
                Ok(x) => x,
                Err(_) => {
                    panic!("C11: parse accepted a buffer the format rejects");
                }
            };
            assert!(c.classes.len() == nc as usize, "C11: class count");
            assert!(c.members.len() == nm as usize, "C11: member count");
            assert!(c.members_by_params.len() == nmp as usize, "C11: by-params count");
            assert!(
                c.string_bytes.as_ptr() as usize == data.as_ptr() as usize + off as usize,
                "C11: string section offset"
            );
            assert!(c.string_bytes.len() == len - off as usize, "C11: string section length");
            assert!(c.classes.as_ptr() as usize == data.as_ptr() as usize + 24, "C11: class section offset");
            kani::cover!(nc == 1 && nm == 1, "accepted image with a class and a member");
            kani::cover!(nc == 0 && nm == 0 && nmp == 0 && len == 24, "accepted bare header");
        }
        Err(e) => {
            let k = e.kind();
            core::mem::forget(e);
            match want {
                Ok(_) => panic!("C11: parse rejected a well-formed buffer"),
                Err(w) => assert!(k == w, "C11: wrong error kind"),
            }
            kani::cover!(k == CacheErrorKind::WrongEndianness);
            kani::cover!(k == CacheErrorKind::WrongFormat);
            kani::cover!(k == CacheErrorKind::WrongVersion);
            kani::cover!(k == CacheErrorKind::InvalidHeader);
            kani::cover!(k == CacheErrorKind::InvalidClasses);
            kani::cover!(k == CacheErrorKind::InvalidMembers);
            kani::cover!(matches!(k, CacheErrorKind::UnexpectedStringBytes { found, .. } if found > 0));
        }
    }
}

#[kani::proof]
fn c11_error_kinds_96() {
    c11_error_kinds_n::<96>();
}

#[kani::proof]
fn c11_error_kinds_160() {
    c11_error_kinds_n::<160>();
}

/// C11-B: a buffer that parses and has exactly the length implied by its own
/// header (what the writer produces) has no accepted strict prefix.
fn c11_prefix_n<const N: usize>() {
    let buf: Aligned<N> = Aligned(kani::any());
    let len: usize = kani::any();
    kani::assume(len <= N);
    let full = &buf.0[..len];
    let ok = ProguardCache::parse(full);
    let c = match ok {
        Ok(c) => c,
        Err(e) => {
            core::mem::forget(e);
            return;
        }
    };
    // exact length: string section is exactly the declared length
    kani::assume(c.string_bytes.len() == c.header.string_bytes as usize);
    let p: usize = kani::any();
    kani::assume(p < len);
    let r = kind_of(ProguardCache::parse(&buf.0[..p]));
    assert!(r.is_err(), "C11: strict prefix of a valid cache accepted");
    kani::cover!(c.header.num_classes == 1 && c.header.string_bytes == 3 && p == len - 1, "one byte short of the string section");
    kani::cover!(c.header.num_members == 1 && p == 24 + 28, "torn inside member section");
}

#[kani::proof]
fn c11_prefix_96() {
    c11_prefix_n::<96>();
}

#[kani::proof]
fn c11_prefix_160() {
    c11_prefix_n::<160>();
}

// ---------------------------------------------------------------- C15: sink chunking and sink errors

use crate::verif_support::inject;

const MAXCALLS: usize = 12;

/// A sink obeying the `std::io::Write` contract with a symbolic schedule: call i
/// accepts `min(len, limit[i])` bytes (limit >= 1), call `fail_at` returns a
/// non-retryable error, call `intr_at` returns `Interrupted` (retryable).
/// Instead of storing the bytes it compares each accepted byte in place against
/// the canonical serialisation and counts them.
struct ScheduledSink<'a> {
    canon: &'a [u8],
    pos: usize,
    calls: usize,
    limits: [usize; MAXCALLS],
    fail_at: usize,
    intr_at: usize,
    mismatch: bool,
    failed: bool,
}

impl<'a> ScheduledSink<'a> {
    fn any(canon: &'a [u8]) -> Self {
        let limits: [usize; MAXCALLS] = kani::any();
        let mut i = 0;
        while i < MAXCALLS {
            kani::assume(limits[i] >= 1);
            i += 1;
        }
        ScheduledSink { canon, pos: 0, calls: 0, limits, fail_at: kani::any(), intr_at: kani::any(), mismatch: false, failed: false }
    }
}

impl<'a> Write for ScheduledSink<'a> {
    fn write(&mut self, buf: &[u8]) -> std::io::Result<usize> {
        let c = self.calls;
        // the schedule is exhausted: the harness bound on the number of calls
        kani::assume(c < MAXCALLS);
        self.calls += 1;
        if c == self.fail_at {
            self.failed = true;
            return Err(std::io::ErrorKind::BrokenPipe.into());
        }
        if c == self.intr_at {
            return Err(std::io::ErrorKind::Interrupted.into());
        }
        let n = if buf.len() < self.limits[c] { buf.len() } else { self.limits[c] };
        let mut i = 0;
        while i < n {
            if self.pos + i >= self.canon.len() || self.canon[self.pos + i] != buf[i] {
                self.mismatch = true;
            }
            i += 1;
        }
        self.pos += n;
        Ok(n)
    }
    fn flush(&mut self) -> std::io::Result<()> {
        Ok(())
    }
}

static ZEROS: [u8; 8] = [0; 8];

/// C15 (unit): the writer's padding step. For every section length and every
/// sink schedule: success => exactly the padding bytes (zeros up to the next
/// multiple of 8) were accepted; a non-retryable sink error => failure, with
/// only a prefix of the padding delivered.
#[kani::proof]
#[kani::unwind(14)]
fn c15_padding_unit() {
    let section_len: usize = kani::any();
    let pad = (8 - section_len % 8) % 8;
    let mut sink = ScheduledSink::any(&ZEROS[..pad]);
    let r = write_padding(&mut sink, section_len);
    let ok = r.is_ok();
    match r {
        Ok(()) => {
            assert!(!sink.failed, "C15: success although the sink failed");
            assert!(sink.pos == pad && !sink.mismatch, "C15: success but the padding was not delivered completely");
        }
        Err(e) => {
            assert!(sink.failed, "C15: failure although the sink never failed");
            assert!(sink.pos <= pad && !sink.mismatch, "C15: more than a prefix delivered");
            core::mem::forget(e);
        }
    }
    kani::cover!(pad == 4 && sink.calls == 4 && ok, "4 padding bytes delivered one by one");
    kani::cover!(pad == 7 && sink.failed && sink.pos == 3, "failure in the middle of the padding");
    kani::cover!(sink.intr_at < sink.calls && ok, "interrupted call retried");
}


/// C15 (`write` as a whole, smallest mapping): `ProguardCache::write` on the empty
/// record stream with a symbolic sink schedule. The canonical bytes are those the
/// same writer delivers to a `Vec`. Success => exactly the canonical bytes were
/// accepted; a non-retryable sink failure => `write` fails, only a prefix delivered.
/// (Larger mappings are out of reach, DESIGN.md section 2b; this still runs the real
/// header `write_all`, all four padding steps and the `?` chain, and refutes e.g. an
/// internal buffer that is never flushed.)
#[kani::proof]
#[kani::unwind(26)]
fn c15_write_empty_mapping() {
    let recs: [crate::verif_support::inject::Item; 0] = [];
    let src = inject::set(&recs);
    let mapping = ProguardMapping::new(src);
    let mut canon: Vec<u8> = Vec::new();
    assert!(ProguardCache::write(&mapping, &mut canon).is_ok());
    assert!(canon.len() == 24, "C09: an empty mapping is a bare 24-byte header");
    let mut sink = ScheduledSink::any(&canon);
    let r = ProguardCache::write(&mapping, &mut sink);
    match r {
        Ok(()) => {
            assert!(!sink.failed, "C15: success although the sink failed");
            assert!(sink.pos == 24 && !sink.mismatch, "C15: success but not exactly the canonical bytes");
        }
        Err(e) => {
            assert!(sink.failed, "C15: failure although the sink never failed");
            assert!(sink.pos <= 24 && !sink.mismatch, "C15: more than a prefix delivered");
            core::mem::forget(e);
        }
    }
    kani::cover!(sink.calls == 6 && sink.pos == 24 && !sink.failed, "header delivered in 6 chunks");
    kani::cover!(sink.failed && sink.pos == 10, "failure after 10 bytes");
    core::mem::forget(canon);
}
