//! Harnesses living inside `crate::java` (child module: sees private items).
#![allow(dead_code, unused_imports, clippy::all)]

use super::*;

/// Models of `core::slice::memchr::{memchr, memrchr}` (plain byte loops instead
/// of the word-at-a-time implementation with pointer-alignment arithmetic).
pub(crate) fn memchr_model(x: u8, text: &[u8]) -> Option<usize> {
    let mut i = 0;
    while i < text.len() {
        if text[i] == x {
            return Some(i);
        }
        i += 1;
    }
    None
}

pub(crate) fn memrchr_model(x: u8, text: &[u8]) -> Option<usize> {
    let mut i = text.len();
    while i > 0 {
        i -= 1;
        if text[i] == x {
            return Some(i);
        }
    }
    None
}


fn is_prim(c: u8) -> bool {
    matches!(c, b'Z' | b'B' | b'C' | b'S' | b'I' | b'J' | b'F' | b'D')
}

/// Reference classification, written from the JVM specification (4.3.3 method
/// descriptors): `( ParameterDescriptor* ) ReturnDescriptor`,
/// FieldType := BaseType | 'L' ClassName ';' | '[' FieldType, ReturnDescriptor := FieldType | 'V'.
/// One pass, explicit state machine (every nested loop over symbolic text
/// multiplies the unwinding cost).
/// Ok(Some(n)): valid descriptor with n parameters, return type at `ret`;
/// Ok(None): one of the documented invalid classes (no parenthesised list, no
/// return type, unterminated object type); Err(()): any other malformed string
/// (the property only asks for no panic and mapper/cache agreement there).
fn ref_classify(s: &[u8], ret: &mut usize) -> Result<Option<usize>, ()> {
    let len = s.len();
    if len == 0 || s[0] != b'(' {
        return Ok(None);
    }
    // the closing parenthesis: the last ')' (class names cannot contain one)
    let mut close = len;
    let mut i = 1;
    while i < len {
        if s[i] == b')' {
            close = i;
        }
        i += 1;
    }
    if close == len || close + 1 == len {
        return Ok(None);
    }
    *ret = close + 1;
    // state 0: at a type start or in its '[' prefix; state 1: inside a class name
    let mut n = 0;
    let mut state = 0u8;
    let mut fresh = true;
    let mut name_len = 0;
    let mut bad = false;
    let mut unterminated = false;
    let mut ret_types = 0;
    let mut p = 1;
    while p < len {
        let c = s[p];
        if p == close {
            if state == 1 {
                unterminated = true;
            } else if !fresh {
                bad = true; // dangling '[' prefix
            }
            state = 0;
            fresh = true;
        } else if state == 0 {
            if c == b'[' {
                fresh = false;
            } else if c == b'L' {
                state = 1;
                name_len = 0;
                fresh = false;
            } else if is_prim(c) || (c == b'V' && p > close && fresh) {
                if p < close {
                    n += 1
                } else {
                    ret_types += 1
                }
                fresh = true;
            } else {
                bad = true;
            }
        } else if c == b';' {
            if name_len == 0 {
                bad = true;
            }
            if p < close {
                n += 1
            } else {
                ret_types += 1
            }
            state = 0;
            fresh = true;
        } else {
            name_len += 1;
        }
        p += 1;
    }
    if unterminated {
        return Ok(None);
    }
    if bad || state == 1 || !fresh || ret_types != 1 {
        return Err(());
    }
    Ok(Some(n))
}

/// Offset of the sub-slice `t` inside `s` (pointer difference inside one object;
/// pointer-to-integer casts are far more expensive for CBMC).
fn off_in(s: &[u8], t: &str) -> usize {
    unsafe { t.as_ptr().offset_from(s.as_ptr()) as usize }
}

fn in_alphabet(c: u8) -> bool {
    matches!(c, b'I' | b'[' | b'L' | b';' | b'a' | b'/' | b')' | b'V' | b'(' | b'J')
}

/// C16 (tokenizer): for every string `(` + N-1 symbolic characters over the
/// alphabet {I J [ L ; a / ) V (}: on valid descriptors the real tokenizer
/// accepts, returns exactly one type per parameter (count) and the return type
/// (as the right sub-slice); on the documented invalid classes it returns None;
/// it never panics. The token *boundaries* are not compared here: reading back
/// the `Vec<&str>` that was pushed under symbolic guards costs CBMC >200 s of
/// array post-processing even for 2 symbolic characters (measured), so the
/// boundaries are covered only through the count and the return slice.
fn c16_tokenizer<const N: usize>() {
    let mut buf = [b'('; N];
    let mut i = 1;
    while i < N {
        let c: u8 = kani::any();
        kani::assume(in_alphabet(c));
        buf[i] = c;
        i += 1;
    }
    let s = &buf[..];
    let text = unsafe { core::str::from_utf8_unchecked(s) };
    let mut ret = 0usize;
    let want = ref_classify(s, &mut ret);
    let got = parse_obfuscated_bytecode_signature(text);
    let (is_some, n_types, r_off, r_len) = match got {
        Some((types, r)) => {
            let n = types.len();
            core::mem::forget(types);
            (true, n, off_in(s, r), r.len())
        }
        None => (false, 0, 0, 0),
    };
    match want {
        Ok(None) => assert!(!is_some, "C16: invalid descriptor accepted"),
        Ok(Some(n)) => {
            assert!(is_some, "C16: valid descriptor rejected");
            assert!(n_types == n, "C16: wrong number of parameter types");
            assert!(r_off == ret && r_len == N - ret, "C16: wrong return type");
            kani::cover!(N < 5 || n == 2, "two parameters");
            kani::cover!(N < 5 || (n == 1 && ret >= 4), "object or array parameter");
        }
        Err(()) => {}
    }
}

macro_rules! c16_tok {
    ($name:ident, $n:expr, $uw:expr) => {
        #[kani::proof]
        #[kani::stub(core::slice::memchr::memchr, memchr_model)]
        #[kani::stub(core::slice::memchr::memrchr, memrchr_model)]
        #[kani::unwind($uw)]
        fn $name() {
            c16_tokenizer::<$n>();
        }
    };
}
// (total length incl. the leading '(', unwind = length + 2)
c16_tok!(c16_tokenizer_len3, 3, 5);
c16_tok!(c16_tokenizer_len4, 4, 6);
c16_tok!(c16_tokenizer_len5, 5, 7);
c16_tok!(c16_tokenizer_len6, 6, 8);

/// C13 (tokenizer, non-ASCII): `(L` + 3 symbolic bytes + `V` over {L ) V I ; a and the
/// two bytes of U+00E9}, valid UTF-8 only: the tokenizer never panics (slicing by
/// computed byte indices next to multi-byte characters). Default Kani checks are on.
#[kani::proof]
#[kani::stub(core::slice::memchr::memchr, memchr_model)]
#[kani::stub(core::slice::memchr::memrchr, memrchr_model)]
#[kani::unwind(8)]
fn c13_tokenizer_utf8() {
    let mut buf = [b'(', b'L', 0, 0, 0, b'V'];
    let mut i = 2;
    while i < 5 {
        let c: u8 = kani::any();
        kani::assume(matches!(c, b'L' | b')' | b'V' | b'I' | b';' | b'a' | 0xC3 | 0xA9));
        buf[i] = c;
        i += 1;
    }
    kani::assume(crate::verif_support::stubs::utf8_valid(&buf));
    let text = unsafe { core::str::from_utf8_unchecked(&buf) };
    let got = parse_obfuscated_bytecode_signature(text);
    kani::cover!(buf[2] == 0xC3 && buf[4] == b')' && got.is_none(), "unterminated object type ending in a 2-byte character");
    if let Some((types, _)) = got {
        core::mem::forget(types);
    }
}

/// C16 (tokenizer, non-ASCII class names): `(L` + 2 bytes + `;` + 1 byte + `)V` over
/// {a I L ; and the two bytes of U+00E9}, valid UTF-8 only, against the same
/// reference classification (count of parameter types, return slice): a class name
/// with multi-byte characters must not swallow the parameters that follow it.
#[kani::proof]
#[kani::stub(core::slice::memchr::memchr, memchr_model)]
#[kani::stub(core::slice::memchr::memrchr, memrchr_model)]
#[kani::unwind(10)]
fn c16_tokenizer_utf8_names() {
    let mut buf = [b'(', b'L', 0, 0, b';', 0, b')', b'V'];
    let idx = [2usize, 3, 5];
    let mut i = 0;
    while i < 3 {
        let c: u8 = kani::any();
        kani::assume(matches!(c, b'a' | b'I' | b'L' | b';' | 0xC3 | 0xA9));
        buf[idx[i]] = c;
        i += 1;
    }
    kani::assume(crate::verif_support::stubs::utf8_valid(&buf));
    let s = &buf[..];
    let text = unsafe { core::str::from_utf8_unchecked(s) };
    let mut ret = 0usize;
    let want = ref_classify(s, &mut ret);
    let got = parse_obfuscated_bytecode_signature(text);
    let (is_some, n_types, r_off, r_len) = match got {
        Some((types, r)) => {
            let n = types.len();
            core::mem::forget(types);
            (true, n, off_in(s, r), r.len())
        }
        None => (false, 0, 0, 0),
    };
    match want {
        Ok(None) => assert!(!is_some, "C16: invalid descriptor accepted"),
        Ok(Some(n)) => {
            assert!(is_some, "C16: valid descriptor rejected");
            assert!(n_types == n, "C16: wrong number of parameter types");
            assert!(r_off == ret && r_len == 8 - ret, "C16: wrong return type");
            kani::cover!(n == 2 && buf[2] == 0xC3, "2-byte class name followed by a primitive parameter");
        }
        Err(()) => {}
    }
}
