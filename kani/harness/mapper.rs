//! Harnesses living inside `crate::mapper` (child module: sees private items).
#![allow(dead_code, unused_imports, clippy::all)]

use super::*;
use crate::verif_support::spec;

/// Stub for `extract_class_name` in the K>=2 step harnesses: their entry
/// shapes never carry the synthetic marker, so the call is infeasible there,
/// but CBMC's symex still explores it with non-constant pointers (a
/// `for`-loop with a symbolic `continue` loses constants in iteration 2) and
/// the memchr loops explode. The real function is checked by the K=1 harnesses.
/// If a change made the call feasible, the stub's answer mismatches the oracle.
fn extract_class_name_stub(_full_path: &str) -> Option<&str> {
    Some("<stub>")
}

const FRAME_CLASS: &str = "p.Out$In";
const FOREIGN_CLASS: &str = "x.Foo$Bar";
const PLAIN_FILE: &str = "F.java";
const FRAME_FILE: &str = "G.java";

/// A `MemberMapping` of the concrete string shape `SHAPE` in
/// {own class, foreign class} x {no file, plain file, synthetic marker}
/// (shape = 3*foreign + file); the numeric fields are unconstrained.
/// Shapes are concrete per harness because symbolic string *pointers* make
/// CBMC's memcmp/memchr loops explode (measured: >15 min for K=1).
fn member_of_shape(shape: u8) -> MemberMapping<'static> {
    let original_class = if shape / 3 == 1 { Some(FOREIGN_CLASS) } else { None };
    let original_file = match shape % 3 {
        0 => None,
        1 => Some(PLAIN_FILE),
        _ => Some(spec::SYNTHETIC_MARKER),
    };
    let oe: Option<usize> = if kani::any() { Some(kani::any()) } else { None };
    MemberMapping {
        startline: kani::any(),
        endline: kani::any(),
        original_class,
        original_file,
        original: "f",
        original_startline: kani::any(),
        original_endline: oe,
    }
}

/// What `create_proguard_mapper` stores for a method record (mapper.rs builder):
/// no usable range -> all four numbers zero/None; otherwise both range ends > 0.
/// (Established by the builder harnesses; a stated assumption of the kernels.)
fn builder_invariant(m: &MemberMapping) -> bool {
    if m.endline == 0 {
        m.startline == 0 && m.original_startline == 0 && m.original_endline.is_none()
    } else {
        m.startline > 0
    }
}

fn to_entry(m: &MemberMapping) -> spec::Entry {
    spec::Entry {
        range: if m.endline > 0 { Some((m.startline as u64, m.endline as u64)) } else { None },
        os: m.original_startline as u64,
        oe: m.original_endline.map(|x| x as u64),
    }
}

fn str_eq(a: &str, b: &str) -> bool {
    a.len() == b.len() && a.as_bytes() == b.as_bytes()
}

fn opt_str_eq(a: Option<&str>, b: Option<&str>) -> bool {
    match (a, b) {
        (None, None) => true,
        (Some(x), Some(y)) => str_eq(x, y),
        _ => false,
    }
}

/// Kernel oracle walk: `iterate_with_lines` over `ents` yields exactly one
/// frame per applying entry, in slice order, with the spec's class, method,
/// line and file; then `None`.
fn walk_with_lines<const K: usize>(ents: &[MemberMapping<'static>; K], line: usize, frame_file: Option<&'static str>, check_line: bool) {
    let mut frame = StackFrame { class: FRAME_CLASS, method: "m", line, file: frame_file, parameters: None };
    let mut it = ents.iter();
    let mut j = 0;
    let mut produced = 0;
    while j <= K {
        let got = iterate_with_lines(&mut frame, &mut it);
        while j < K && !spec::applies(&to_entry(&ents[j]), line as u64) {
            j += 1;
        }
        if j == K {
            assert!(got.is_none(), "C01: extra frame produced");
            break;
        }
        let e = &ents[j];
        let g = match got {
            Some(g) => g,
            None => panic!("C01: applying entry dropped"),
        };
        assert!(str_eq(g.class, e.original_class.unwrap_or(FRAME_CLASS)), "C01: class");
        assert!(str_eq(g.method, e.original), "C01: method");
        if check_line {
            match spec::orig_line(&to_entry(e), line as u64) {
                Some(l) => assert!(g.line as u64 == l, "C01: original line"),
                None => {}
            }
        }
        let want_file = spec::orig_file(e.original_file, e.original_class, FRAME_CLASS, frame_file);
        assert!(opt_str_eq(g.file, want_file), "C01: file");
        assert!(g.parameters.is_none());
        produced += 1;
        j += 1;
    }
    kani::cover!(produced == K, "every entry applied");
    kani::cover!(produced == 0 && K > 0, "no entry applied");
}

fn c01_kernel<const K: usize>(ents: [MemberMapping<'static>; K]) {
    let mut i = 0;
    while i < K {
        kani::assume(builder_invariant(&ents[i]));
        // property domain: line numbers in the mapping below 2^32-1
        kani::assume(ents[i].startline < 0xffff_ffff && ents[i].endline < 0xffff_ffff);
        kani::assume(ents[i].original_startline < 0xffff_ffff);
        kani::assume(ents[i].original_endline.map_or(true, |x| x < 0xffff_ffff));
        i += 1;
    }
    let line: usize = kani::any();
    let frame_file = if kani::any() { Some(FRAME_FILE) } else { None };
    walk_with_lines(&ents, line, frame_file, true);
    kani::cover!(K > 0 && ents[0].endline > ents[0].startline && line > ents[0].startline && line < ents[0].endline
        && ents[0].original_endline.is_some() && ents[0].original_endline != Some(ents[0].original_startline), "interior line of a real range with offset rule");
    kani::cover!(K > 0 && ents[0].endline > 0 && ents[0].endline < ents[0].startline, "inverted range");
    kani::cover!(K > 0 && ents[0].endline == 0, "entry without usable range");
    kani::cover!(K > 0 && line == usize::MAX, "line 2^64-1");
}

macro_rules! c01_k1 {
    ($name:ident, $shape:expr) => {
        /// C01 (mapper kernel), one entry of a fixed string shape, all integers.
        #[kani::proof]
        #[kani::unwind(20)]
        fn $name() {
            c01_kernel::<1>([member_of_shape($shape)]);
        }
    };
}
c01_k1!(c01_mapper_kernel_1_own_nofile, 0);
c01_k1!(c01_mapper_kernel_1_own_file, 1);
c01_k1!(c01_mapper_kernel_1_own_synth, 2);
c01_k1!(c01_mapper_kernel_1_foreign_nofile, 3);
c01_k1!(c01_mapper_kernel_1_foreign_file, 4);
c01_k1!(c01_mapper_kernel_1_foreign_synth, 5);

/// C01 (mapper kernel), inductive step over K entries: one call returns the
/// frame of the *first* applying entry (skipping the non-applying ones before
/// it) and leaves the iterator positioned right after it; if none applies it
/// returns None with the iterator exhausted. Any suffix of a slice is again a
/// slice, so by induction the produced sequence is exactly
/// `entries.filter(applies).map(spec_frame)` in slice order, for slices of
/// any length whose entries have these shapes.
fn c01_step<const K: usize>(ents: [MemberMapping<'static>; K]) {
    // NB: the array is built by the caller with an array *literal*: building it
    // through `core::array::from_fn` (raw-pointer writes into MaybeUninit) makes
    // the &str pointers non-constant for CBMC and the kernel explodes.
    let mut i = 0;
    while i < K {
        kani::assume(builder_invariant(&ents[i]));
        kani::assume(ents[i].startline < 0xffff_ffff && ents[i].endline < 0xffff_ffff);
        kani::assume(ents[i].original_startline < 0xffff_ffff);
        kani::assume(ents[i].original_endline.map_or(true, |x| x < 0xffff_ffff));
        i += 1;
    }
    let line: usize = kani::any();
    let frame_file = if kani::any() { Some(FRAME_FILE) } else { None };
    let mut frame = StackFrame { class: FRAME_CLASS, method: "m", line, file: frame_file, parameters: None };
    let mut it = ents.iter();
    let got = iterate_with_lines(&mut frame, &mut it);
    let rest = it.as_slice().len();
    let mut found = false;
    i = 0;
    while i < K {
        if !found && spec::applies(&to_entry(&ents[i]), line as u64) {
            found = true;
            let e = &ents[i];
            let g = match &got {
                Some(g) => g,
                None => panic!("C01: applying entry dropped"),
            };
            assert!(rest == K - i - 1, "C01: iterator not positioned after the first applying entry");
            assert!(str_eq(g.class, e.original_class.unwrap_or(FRAME_CLASS)), "C01: class");
            assert!(str_eq(g.method, e.original), "C01: method");
            if let Some(l) = spec::orig_line(&to_entry(e), line as u64) {
                assert!(g.line as u64 == l, "C01: original line");
            }
            let want_file = spec::orig_file(e.original_file, e.original_class, FRAME_CLASS, frame_file);
            assert!(opt_str_eq(g.file, want_file), "C01: file");
        }
        i += 1;
    }
    if !found {
        assert!(got.is_none(), "C01: frame produced although no entry applies");
        assert!(rest == 0);
    }
    kani::cover!(found && rest == 0 && K > 1, "last entry is the first applying one");
    kani::cover!(!found, "no entry applies");
}

#[kani::proof]
#[kani::stub(crate::mapper::extract_class_name, extract_class_name_stub)]
#[kani::unwind(20)]
fn c01_mapper_step_2_a() {
    c01_step::<2>([member_of_shape(0), member_of_shape(3)]);
}

#[kani::proof]
#[kani::stub(crate::mapper::extract_class_name, extract_class_name_stub)]
#[kani::unwind(20)]
fn c01_mapper_step_2_b() {
    c01_step::<2>([member_of_shape(4), member_of_shape(0)]);
}

#[kani::proof]
#[kani::stub(crate::mapper::extract_class_name, extract_class_name_stub)]
#[kani::unwind(20)]
fn c01_mapper_step_3() {
    c01_step::<3>([member_of_shape(3), member_of_shape(0), member_of_shape(1)]);
}

/// C13 (mapper kernel): with *unrestricted* 64-bit numbers (only the builder
/// invariant assumed) the iterator must not panic or overflow for any frame line.
/// Run with Kani's default checks.
#[kani::proof]
#[kani::stub(crate::mapper::extract_class_name, extract_class_name_stub)]
#[kani::unwind(20)]
fn c13_mapper_kernel_nopanic() {
    let ents: [MemberMapping<'static>; 2] = [member_of_shape(0), member_of_shape(3)];
    kani::assume(builder_invariant(&ents[0]));
    kani::assume(builder_invariant(&ents[1]));
    let line: usize = kani::any();
    let mut frame = StackFrame { class: FRAME_CLASS, method: "m", line, file: None, parameters: None };
    let mut it = ents.iter();
    let a = iterate_with_lines(&mut frame, &mut it);
    let b = iterate_with_lines(&mut frame, &mut it);
    kani::cover!(a.is_some() && b.is_some());
    kani::cover!(ents[0].original_startline == usize::MAX && a.is_some());
}

/// iterate_without_lines: one frame per entry, in order, class rule, line 0, no file.
#[kani::proof]
#[kani::unwind(20)]
fn c03_mapper_without_lines_kernel() {
    let ents: [MemberMapping<'static>; 2] = [member_of_shape(0), member_of_shape(4)];
    let mut frame = StackFrame { class: FRAME_CLASS, method: "m", line: kani::any(), file: Some(FRAME_FILE), parameters: Some("I") };
    let mut it = ents.iter();
    let mut i = 0;
    while i < 2 {
        let g = iterate_without_lines(&mut frame, &mut it).unwrap();
        assert!(str_eq(g.class, ents[i].original_class.unwrap_or(FRAME_CLASS)), "C03: class");
        assert!(str_eq(g.method, ents[i].original), "C03: method");
        assert!(g.line == 0 && g.file.is_none(), "C03: line 0 and no file");
        assert!(g.parameters == Some("I"));
        i += 1;
    }
    assert!(iterate_without_lines(&mut frame, &mut it).is_none());
}

// ------------------------------------------------------------------ lookups on a hand-built mapper

fn member(orig: &'static str, s: usize, e: usize, os: usize, oe: Option<usize>) -> MemberMapping<'static> {
    MemberMapping { startline: s, endline: e, original_class: None, original_file: None, original: orig, original_startline: os, original_endline: oe }
}

const NAMES: [&str; 3] = ["f", "g", "h"];

fn pick_name() -> &'static str {
    let k: u8 = kani::any();
    kani::assume(k < 3);
    NAMES[k as usize]
}

/// C04 (mapper): remap_method answers iff the class is known, the method has
/// >=1 entry and all entries carry the same original name; and when it answers
/// every line-remapped frame carries that name.
#[kani::proof]
#[kani::stub(crate::mapper::extract_class_name, extract_class_name_stub)]
#[kani::unwind(8)]
fn c04_mapper_remap_method() {
    // class "a" -> "A" with method "m" having n (1..=3) entries with symbolic original names
    let n: usize = kani::any();
    kani::assume(n >= 1 && n <= 3);
    let names = [pick_name(), pick_name(), pick_name()];
    let mut all = Vec::with_capacity(3);
    let mut i = 0;
    while i < n {
        all.push(member(names[i], kani::any(), kani::any(), kani::any(), None));
        i += 1;
    }
    let mut members = HashMap::new();
    members.insert("m", ClassMembers { all_mappings: all, mappings_by_params: Default::default() });
    let mut classes = HashMap::new();
    classes.insert("a", ClassMapping { original: "A", obfuscated: "a", file_name: None, members });
    let mapper = ProguardMapper { classes };

    let got = mapper.remap_method("a", "m");
    let mut agree = true;
    i = 1;
    while i < n {
        if !str_eq(names[i], names[0]) {
            agree = false;
        }
        i += 1;
    }
    if agree {
        let (c, m) = got.expect("C04: unambiguous method not answered");
        assert!(str_eq(c, "A") && str_eq(m, names[0]), "C04: wrong answer");
        // every frame of line-based remapping carries that method name
        let line: usize = kani::any();
        let frame = StackFrame::new("a", "m", line);
        let mut it = mapper.remap_frame(&frame);
        let mut k = 0;
        while k < 3 {
            if let Some(f) = it.next() {
                assert!(str_eq(f.method, m), "C04: frame disagrees with remap_method");
                assert!(str_eq(f.class, "A"));
            }
            k += 1;
        }
    } else {
        assert!(got.is_none(), "C04: ambiguous method answered");
    }
    assert!(mapper.remap_method("a", "x").is_none(), "C04: unknown method answered");
    assert!(mapper.remap_method("b", "m").is_none(), "C04: unknown class answered");
    assert!(mapper.remap_class("a") == Some("A"));
    assert!(mapper.remap_class("A").is_none() && mapper.remap_class("").is_none() && mapper.remap_class("aa").is_none());
    kani::cover!(agree && n == 3);
    kani::cover!(!agree && n == 2);
    core::mem::forget(mapper);
}

/// C08 (mapper): typed remapping keeps depth, every throwable and every frame.
#[kani::proof]
#[kani::stub(crate::mapper::extract_class_name, extract_class_name_stub)]
#[kani::unwind(8)]
fn c08_mapper_typed() {
    let mut all = Vec::with_capacity(2);
    all.push(member("f", 1, 5, 10, Some(14)));
    all.push(member("g", 3, 8, 20, None));
    let mut members = HashMap::new();
    members.insert("m", ClassMembers { all_mappings: all, mappings_by_params: Default::default() });
    let mut classes = HashMap::new();
    classes.insert("a", ClassMapping { original: "A", obfuscated: "a", file_name: None, members });
    let mapper = ProguardMapper { classes };

    let known_exc: bool = kani::any();
    let has_exc: bool = kani::any();
    let has_msg: bool = kani::any();
    let exc = if has_exc {
        Some(Throwable { class: if known_exc { "a" } else { "zz" }, message: if has_msg { Some("boom") } else { None } })
    } else {
        None
    };
    let l0: usize = kani::any();
    let l1: usize = kani::any();
    let known_f1: bool = kani::any();
    let frames = vec![
        StackFrame::with_file("a", "m", l0, "S.java"),
        StackFrame::with_file(if known_f1 { "a" } else { "q" }, "m", l1, "T.java"),
    ];
    let has_cause: bool = kani::any();
    let cause_known: bool = kani::any();
    let trace = StackTrace {
        exception: exc.clone(),
        frames,
        cause: if has_cause {
            Some(Box::new(StackTrace {
                exception: Some(Throwable { class: if cause_known { "a" } else { "yy" }, message: None }),
                frames: vec![],
                cause: None,
            }))
        } else {
            None
        },
    };
    let out = mapper.remap_stacktrace_typed(&trace);
    // throwable: remapped when known, kept unchanged otherwise - never dropped
    match (&exc, &out.exception) {
        (None, None) => {}
        (Some(i), Some(o)) => {
            assert!(str_eq(o.class, if known_exc { "A" } else { i.class }), "C08: throwable class");
            assert!(o.message == i.message, "C08: message lost");
        }
        (Some(_), None) => panic!("C08: throwable dropped by typed remapping"),
        (None, Some(_)) => panic!("C08: throwable invented"),
    }
    // depth
    assert!(out.cause.is_some() == has_cause, "C08: cause chain depth changed");
    if let Some(c) = &out.cause {
        match &c.exception {
            Some(o) => assert!(str_eq(o.class, if cause_known { "A" } else { "yy" }), "C08: cause class"),
            None => panic!("C08: cause throwable dropped by typed remapping"),
        }
        assert!(c.frames.len() == 0 && c.cause.is_none());
    }
    // frames: each replaced by >=1 remapped frames or kept
    let n0 = (if l0 >= 1 && l0 <= 5 { 1 } else { 0 }) + (if l0 >= 3 && l0 <= 8 { 1 } else { 0 });
    let n1 = if known_f1 { (if l1 >= 1 && l1 <= 5 { 1 } else { 0 }) + (if l1 >= 3 && l1 <= 8 { 1 } else { 0 }) } else { 0 };
    let e0 = if n0 == 0 { 1 } else { n0 };
    let e1 = if n1 == 0 { 1 } else { n1 };
    assert!(out.frames.len() == e0 + e1, "C08: frame count");
    if n0 == 0 {
        assert!(out.frames[0] == trace.frames[0], "C08: unresolved frame not kept unchanged");
    } else {
        assert!(str_eq(out.frames[0].class, "A"));
    }
    if n1 == 0 {
        assert!(out.frames[e0] == trace.frames[1], "C08: unresolved frame not kept unchanged");
    }
    kani::cover!(n0 == 2 && n1 == 0);
    kani::cover!(has_exc && !known_exc);
    core::mem::forget(out);
    core::mem::forget(trace);
    core::mem::forget(mapper);
}

