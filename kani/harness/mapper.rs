//! Harnesses living inside `crate::mapper` (child module: sees private items).
#![allow(dead_code, unused_imports, clippy::all)]

use super::*;
use crate::verif_support::spec;

/// Stub for `extract_class_name` in the K>=2 step harnesses: their entry
/// shapes never carry the synthetic marker, so the call is infeasible there,
/// but CBMC's symex still explores it with non-constant pointers (a
/// `for`-loop with a symbolic `continue` loses constants in iteration 2) and
/// the memchr loops explode. The real function is checked by the K=1 harnesses.
/// If a change made the call feasible, the stub's answer mismatches the oracle.
fn extract_class_name_stub(_full_path: &str) -> Option<&str> {
    Some("<stub>")
}

const FRAME_CLASS: &str = "p.Out$In";
const FOREIGN_CLASS: &str = "x.Foo$Bar";
const PLAIN_FILE: &str = "F.java";
const FRAME_FILE: &str = "G.java";

/// A `MemberMapping` of the concrete string shape `SHAPE` in
/// {own class, foreign class} x {no file, plain file, synthetic marker}
/// (shape = 3*foreign + file); the numeric fields are unconstrained.
/// Shapes are concrete per harness because symbolic string *pointers* make
/// CBMC's memcmp/memchr loops explode (measured: >15 min for K=1).
fn member_of_shape(shape: u8) -> MemberMapping<'static> {
    let original_class = if shape / 3 == 1 { Some(FOREIGN_CLASS) } else { None };
    let original_file = match shape % 3 {
        0 => None,
        1 => Some(PLAIN_FILE),
        _ => Some(spec::SYNTHETIC_MARKER),
    };
    let oe: Option<usize> = if kani::any() { Some(kani::any()) } else { None };
    MemberMapping {
        startline: kani::any(),
        endline: kani::any(),
        original_class,
        original_file,
        original: "f",
        original_startline: kani::any(),
        original_endline: oe,
    }
}

/// What `create_proguard_mapper` stores for a method record (mapper.rs builder):
/// no usable range -> all four numbers zero/None; otherwise both range ends > 0.
/// (Established by the builder harnesses; a stated assumption of the kernels.)
fn builder_invariant(m: &MemberMapping) -> bool {
    if m.endline == 0 {
        m.startline == 0 && m.original_startline == 0 && m.original_endline.is_none()
    } else {
        m.startline > 0
    }
}

fn to_entry(m: &MemberMapping) -> spec::Entry {
    spec::Entry {
        range: if m.endline > 0 { Some((m.startline as u64, m.endline as u64)) } else { None },
        os: m.original_startline as u64,
        oe: m.original_endline.map(|x| x as u64),
    }
}

fn str_eq(a: &str, b: &str) -> bool {
    a.len() == b.len() && a.as_bytes() == b.as_bytes()
}

fn opt_str_eq(a: Option<&str>, b: Option<&str>) -> bool {
    match (a, b) {
        (None, None) => true,
        (Some(x), Some(y)) => str_eq(x, y),
        _ => false,
    }
}

/// Kernel oracle walk: `iterate_with_lines` over `ents` yields exactly one
/// frame per applying entry, in slice order, with the spec's class, method,
/// line and file; then `None`.
fn walk_with_lines<const K: usize>(ents: &[MemberMapping<'static>; K], line: usize, frame_file: Option<&'static str>, check_line: bool) {
    let mut frame = StackFrame { class: FRAME_CLASS, method: "m", line, file: frame_file, parameters: None };
    let mut it = ents.iter();
    let mut j = 0;
    let mut produced = 0;
    while j <= K {
        let got = iterate_with_lines(&mut frame, &mut it);
        while j < K && !spec::applies(&to_entry(&ents[j]), line as u64) {
            j += 1;
        }
        if j == K {
            assert!(got.is_none(), "C01: extra frame produced");
            break;
        }
        let e = &ents[j];
        let g = match got {
            Some(g) => g,
            None => panic!("C01: applying entry dropped"),
        };
        assert!(str_eq(g.class, e.original_class.unwrap_or(FRAME_CLASS)), "C01: class");
        assert!(str_eq(g.method, e.original), "C01: method");
        if check_line {
            match spec::orig_line(&to_entry(e), line as u64) {
                Some(l) => assert!(g.line as u64 == l, "C01: original line"),
                None => {}
            }
        }
        let want_file = spec::orig_file(e.original_file, e.original_class, FRAME_CLASS, frame_file);
        assert!(opt_str_eq(g.file, want_file), "C01: file");
        assert!(g.parameters.is_none());
        produced += 1;
        j += 1;
    }
    kani::cover!(produced == K, "every entry applied");
    kani::cover!(produced == 0 && K > 0, "no entry applied");
}

fn c01_kernel<const K: usize>(ents: [MemberMapping<'static>; K]) {
    let mut i = 0;
    while i < K {
        kani::assume(builder_invariant(&ents[i]));
        // property domain: line numbers in the mapping below 2^32-1
        kani::assume(ents[i].startline < 0xffff_ffff && ents[i].endline < 0xffff_ffff);
        kani::assume(ents[i].original_startline < 0xffff_ffff);
        kani::assume(ents[i].original_endline.map_or(true, |x| x < 0xffff_ffff));
        i += 1;
    }
    let line: usize = kani::any();
    let frame_file = if kani::any() { Some(FRAME_FILE) } else { None };
    walk_with_lines(&ents, line, frame_file, true);
    kani::cover!(K > 0 && ents[0].endline > ents[0].startline && line > ents[0].startline && line < ents[0].endline
        && ents[0].original_endline.is_some() && ents[0].original_endline != Some(ents[0].original_startline), "interior line of a real range with offset rule");
    kani::cover!(K > 0 && ents[0].endline > 0 && ents[0].endline < ents[0].startline, "inverted range");
    kani::cover!(K > 0 && ents[0].endline == 0, "entry without usable range");
    kani::cover!(K > 0 && line == usize::MAX, "line 2^64-1");
}

macro_rules! c01_k1 {
    ($name:ident, $shape:expr) => {
        /// C01 (mapper kernel), one entry of a fixed string shape, all integers.
        #[kani::proof]
        #[kani::unwind(20)]
        fn $name() {
            c01_kernel::<1>([member_of_shape($shape)]);
        }
    };
}
c01_k1!(c01_mapper_kernel_1_own_nofile, 0);
c01_k1!(c01_mapper_kernel_1_own_file, 1);
c01_k1!(c01_mapper_kernel_1_own_synth, 2);
c01_k1!(c01_mapper_kernel_1_foreign_nofile, 3);
c01_k1!(c01_mapper_kernel_1_foreign_file, 4);
c01_k1!(c01_mapper_kernel_1_foreign_synth, 5);

/// C01 (mapper kernel), inductive step over K entries: one call returns the
/// frame of the *first* applying entry (skipping the non-applying ones before
/// it) and leaves the iterator positioned right after it; if none applies it
/// returns None with the iterator exhausted. Any suffix of a slice is again a
/// slice, so by induction the produced sequence is exactly
/// `entries.filter(applies).map(spec_frame)` in slice order, for slices of
/// any length whose entries have these shapes.
fn c01_step<const K: usize>(ents: [MemberMapping<'static>; K]) {
    // NB: the array is built by the caller with an array *literal*: building it
    // through `core::array::from_fn` (raw-pointer writes into MaybeUninit) makes
    // the &str pointers non-constant for CBMC and the kernel explodes.
    let mut i = 0;
    while i < K {
        kani::assume(builder_invariant(&ents[i]));
        kani::assume(ents[i].startline < 0xffff_ffff && ents[i].endline < 0xffff_ffff);
        kani::assume(ents[i].original_startline < 0xffff_ffff);
        kani::assume(ents[i].original_endline.map_or(true, |x| x < 0xffff_ffff));
        i += 1;
    }
    let line: usize = kani::any();
    let frame_file = if kani::any() { Some(FRAME_FILE) } else { None };
    let mut frame = StackFrame { class: FRAME_CLASS, method: "m", line, file: frame_file, parameters: None };
    let mut it = ents.iter();
    let got = iterate_with_lines(&mut frame, &mut it);
    let rest = it.as_slice().len();
    let mut found = false;
    i = 0;
    while i < K {
        if !found && spec::applies(&to_entry(&ents[i]), line as u64) {
            found = true;
            let e = &ents[i];
            let g = match &got {
                Some(g) => g,
                None => panic!("C01: applying entry dropped"),
            };
            assert!(rest == K - i - 1, "C01: iterator not positioned after the first applying entry");
            assert!(str_eq(g.class, e.original_class.unwrap_or(FRAME_CLASS)), "C01: class");
            assert!(str_eq(g.method, e.original), "C01: method");
            if let Some(l) = spec::orig_line(&to_entry(e), line as u64) {
                assert!(g.line as u64 == l, "C01: original line");
            }
            let want_file = spec::orig_file(e.original_file, e.original_class, FRAME_CLASS, frame_file);
            assert!(opt_str_eq(g.file, want_file), "C01: file");
        }
        i += 1;
    }
    if !found {
        assert!(got.is_none(), "C01: frame produced although no entry applies");
        assert!(rest == 0);
    }
    kani::cover!(found && rest == 0 && K > 1, "last entry is the first applying one");
    kani::cover!(!found, "no entry applies");
}

#[kani::proof]
#[kani::stub(crate::mapper::extract_class_name, extract_class_name_stub)]
#[kani::unwind(20)]
fn c01_mapper_step_2_a() {
    c01_step::<2>([member_of_shape(0), member_of_shape(3)]);
}

#[kani::proof]
#[kani::stub(crate::mapper::extract_class_name, extract_class_name_stub)]
#[kani::unwind(20)]
fn c01_mapper_step_2_b() {
    c01_step::<2>([member_of_shape(4), member_of_shape(0)]);
}

#[kani::proof]
#[kani::stub(crate::mapper::extract_class_name, extract_class_name_stub)]
#[kani::unwind(20)]
fn c01_mapper_step_3() {
    c01_step::<3>([member_of_shape(3), member_of_shape(0), member_of_shape(1)]);
}

/// C13 (mapper kernel): with *unrestricted* 64-bit numbers (only the builder
/// invariant assumed) the iterator must not panic or overflow for any frame line.
/// Run with Kani's default checks.
#[kani::proof]
#[kani::stub(crate::mapper::extract_class_name, extract_class_name_stub)]
#[kani::unwind(20)]
fn c13_mapper_kernel_nopanic() {
    let ents: [MemberMapping<'static>; 2] = [member_of_shape(0), member_of_shape(3)];
    kani::assume(builder_invariant(&ents[0]));
    kani::assume(builder_invariant(&ents[1]));
    let line: usize = kani::any();
    let mut frame = StackFrame { class: FRAME_CLASS, method: "m", line, file: None, parameters: None };
    let mut it = ents.iter();
    let a = iterate_with_lines(&mut frame, &mut it);
    let b = iterate_with_lines(&mut frame, &mut it);
    kani::cover!(a.is_some() && b.is_some());
    kani::cover!(ents[0].original_startline == usize::MAX && a.is_some());
}

/// iterate_without_lines: one frame per entry, in order, class rule, line 0, no file.
#[kani::proof]
#[kani::unwind(20)]
fn c03_mapper_without_lines_kernel() {
    let ents: [MemberMapping<'static>; 2] = [member_of_shape(0), member_of_shape(4)];
    let mut frame = StackFrame { class: FRAME_CLASS, method: "m", line: kani::any(), file: Some(FRAME_FILE), parameters: Some("I") };
    let mut it = ents.iter();
    let mut i = 0;
    while i < 2 {
        let g = iterate_without_lines(&mut frame, &mut it).unwrap();
        assert!(str_eq(g.class, ents[i].original_class.unwrap_or(FRAME_CLASS)), "C03: class");
        assert!(str_eq(g.method, ents[i].original), "C03: method");
        assert!(g.line == 0 && g.file.is_none(), "C03: line 0 and no file");
        assert!(g.parameters == Some("I"));
        i += 1;
    }
    assert!(iterate_without_lines(&mut frame, &mut it).is_none());
}

// ------------------------------------------------------------------ lookups on a hand-built mapper

fn member(orig: &'static str, s: usize, e: usize, os: usize, oe: Option<usize>) -> MemberMapping<'static> {
    MemberMapping { startline: s, endline: e, original_class: None, original_file: None, original: orig, original_startline: os, original_endline: oe }
}

/// C04 (mapper): remap_method answers iff the class is known, the method has
/// >=1 entry and all entries carry the same original name; and when it answers
/// every line-remapped frame carries that name. `names` is concrete per
/// harness (symbolic string pointers are intractable); all numbers symbolic.
fn c04_mapper<const N: usize>(names: [&'static str; N]) {
    let mut all = Vec::with_capacity(N);
    let mut i = 0;
    while i < N {
        let m = member(names[i], kani::any(), kani::any(), kani::any(), if kani::any() { Some(kani::any()) } else { None });
        kani::assume(builder_invariant(&m));
        kani::assume(m.original_startline < 0xffff_ffff && m.startline < 0xffff_ffff);
        all.push(m);
        i += 1;
    }
    let mut members = HashMap::new();
    members.insert("m", ClassMembers { all_mappings: all, mappings_by_params: Default::default() });
    let mut classes = HashMap::new();
    classes.insert("a", ClassMapping { original: "A", obfuscated: "a", file_name: None, members });
    let mapper = ProguardMapper { classes };

    let got = mapper.remap_method("a", "m");
    let mut agree = true;
    i = 1;
    while i < N {
        if !str_eq(names[i], names[0]) {
            agree = false;
        }
        i += 1;
    }
    if agree {
        let (c, m) = match got {
            Some(x) => x,
            None => panic!("C04: unambiguous method not answered"),
        };
        assert!(str_eq(c, "A") && str_eq(m, names[0]), "C04: wrong answer");
        // every frame of line-based remapping carries that method name
        let line: usize = kani::any();
        let frame = StackFrame::new("a", "m", line);
        let mut it = mapper.remap_frame(&frame);
        let mut k = 0;
        while k < N {
            if let Some(f) = it.next() {
                assert!(str_eq(f.method, m), "C04: frame disagrees with remap_method");
                assert!(str_eq(f.class, "A"), "C04: frame class");
            }
            k += 1;
        }
    } else {
        assert!(got.is_none(), "C04: ambiguous method answered");
    }
    assert!(mapper.remap_method("a", "x").is_none(), "C04: unknown method answered");
    assert!(mapper.remap_method("b", "m").is_none(), "C04: unknown class answered");
    assert!(mapper.remap_method("a", "").is_none() && mapper.remap_method("a", "mm").is_none(), "C04: near-miss method answered");
    assert!(mapper.remap_class("a") == Some("A"), "C04: known class");
    assert!(mapper.remap_class("A").is_none() && mapper.remap_class("").is_none() && mapper.remap_class("aa").is_none(), "C04: near-miss class answered");
    assert!(mapper.remap_frame(&StackFrame::new("b", "m", 1)).next().is_none(), "C01: unknown class yields frames");
    assert!(mapper.remap_frame(&StackFrame::new("a", "x", 1)).next().is_none(), "C01: unknown method yields frames");
    core::mem::forget(mapper);
}

macro_rules! c04_m {
    ($name:ident, $n:expr, $names:expr) => {
        #[kani::proof]
        #[kani::stub(crate::mapper::extract_class_name, extract_class_name_stub)]
        #[kani::unwind(6)]
        fn $name() {
            c04_mapper::<$n>($names);
        }
    };
}
c04_m!(c04_mapper_f, 1, ["f"]);
c04_m!(c04_mapper_ff, 2, ["f", "f"]);
c04_m!(c04_mapper_fg, 2, ["f", "g"]);
c04_m!(c04_mapper_fff, 3, ["f", "f", "f"]);
c04_m!(c04_mapper_ffg, 3, ["f", "f", "g"]);
c04_m!(c04_mapper_gff, 3, ["g", "f", "f"]);
c04_m!(c04_mapper_fgf, 3, ["f", "g", "f"]);

fn c08_mapper_fixture() -> ProguardMapper<'static> {
    let mut all = Vec::with_capacity(2);
    all.push(member("f", 1, 5, 10, Some(14)));
    all.push(member("g", 3, 8, 20, None));
    let mut members = HashMap::new();
    members.insert("m", ClassMembers { all_mappings: all, mappings_by_params: Default::default() });
    let mut classes = HashMap::new();
    classes.insert("a", ClassMapping { original: "A", obfuscated: "a", file_name: None, members });
    ProguardMapper { classes }
}

/// C08 (mapper), throwables and cause chain: typed remapping keeps the depth and
/// every throwable (remapped when the class is known, unchanged otherwise).
/// EXC/C1/C2: 0 = absent, 1 = class known to the mapping, 2 = unknown class.
/// The message presence is symbolic.
fn c08_mapper_chain<const EXC: u8, const C1: u8, const C2: u8>() {
    let mapper = c08_mapper_fixture();
    let msg: Option<&'static str> = if kani::any() { Some("b") } else { None };
    let mk = |k: u8, unknown: &'static str| match k {
        0 => None,
        1 => Some(Throwable { class: "a", message: msg }),
        _ => Some(Throwable { class: unknown, message: msg }),
    };
    let level2 = if C2 != 0 { Some(Box::new(StackTrace { exception: mk(C2, "y2"), frames: vec![], cause: None })) } else { None };
    let level1 = if C1 != 0 { Some(Box::new(StackTrace { exception: mk(C1, "y1"), frames: vec![], cause: level2 })) } else { None };
    let trace = StackTrace { exception: mk(EXC, "zz"), frames: vec![], cause: level1 };
    let out = mapper.remap_stacktrace_typed(&trace);

    let check = |k: u8, unknown: &str, o: &Option<Throwable>| match (k, o) {
        (0, None) => {}
        (0, Some(_)) => panic!("C08: throwable invented"),
        (_, None) => panic!("C08: throwable dropped by typed remapping"),
        (k, Some(o)) => {
            assert!(str_eq(o.class, if k == 1 { "A" } else { unknown }), "C08: throwable class");
            assert!(o.message == msg, "C08: message lost");
        }
    };
    check(EXC, "zz", &out.exception);
    assert!(out.frames.len() == 0, "C08: frames invented");
    assert!(out.cause.is_some() == (C1 != 0), "C08: cause chain depth changed");
    if let Some(c1) = &out.cause {
        check(C1, "y1", &c1.exception);
        assert!(c1.cause.is_some() == (C2 != 0), "C08: cause chain depth changed (level 2)");
        if let Some(c2) = &c1.cause {
            check(C2, "y2", &c2.exception);
            assert!(c2.cause.is_none(), "C08: cause chain grew");
        }
    }
    core::mem::forget(out);
    core::mem::forget(trace);
    core::mem::forget(mapper);
}

/// C08 (mapper), frames: a frame is replaced by its remapped frames (>=1) or
/// kept unchanged; frames before and after it are untouched. One symbolic line.
///
/// The line is symbolic inside one of four regimes that together cover every
/// usize (REGIME 0: l==0 or l>8 -> no entry; 1: 1..=2 -> f; 2: 3..=5 -> f,g;
/// 3: 6..=8 -> g): a symbolic *number* of pushed frames makes `Vec::extend`'s
/// growth path explode under CBMC (measured: >300 s), a symbolic line inside a
/// regime does not.
fn c08_mapper_frames<const KNOWN: bool, const REGIME: u8>() {
    let mapper = c08_mapper_fixture();
    let l: usize = kani::any();
    match REGIME {
        0 => kani::assume(l == 0 || l > 8),
        1 => kani::assume(l >= 1 && l <= 2),
        2 => kani::assume(l >= 3 && l <= 5),
        _ => kani::assume(l >= 6 && l <= 8),
    }
    let frames = vec![
        StackFrame::with_file("q", "m", 7, "U"),
        StackFrame::with_file(if KNOWN { "a" } else { "b" }, "m", l, "S"),
        StackFrame::with_file("a", "zz", 2, "V"),
    ];
    let trace = StackTrace { exception: None, frames, cause: None };
    let out = mapper.remap_stacktrace_typed(&trace);
    let n = if KNOWN { (if l >= 1 && l <= 5 { 1 } else { 0 }) + (if l >= 3 && l <= 8 { 1 } else { 0 }) } else { 0 };
    let e = if n == 0 { 1 } else { n };
    assert!(out.exception.is_none() && out.cause.is_none());
    assert!(out.frames.len() == 2 + e, "C08: frame count");
    assert!(out.frames[0] == trace.frames[0], "C08: unresolved frame (unknown class) not kept unchanged");
    assert!(out.frames[1 + e] == trace.frames[2], "C08: unresolved frame (unknown method) not kept unchanged");
    if n == 0 {
        assert!(out.frames[1] == trace.frames[1], "C08: unresolved frame not kept unchanged");
    } else {
        assert!(str_eq(out.frames[1].class, "A"), "C08: remapped frame class");
        let first_f = l >= 1 && l <= 5;
        assert!(str_eq(out.frames[1].method, if first_f { "f" } else { "g" }), "C08: remapped frame method");
        if n == 2 {
            assert!(str_eq(out.frames[2].method, "g"), "C08: second remapped frame");
        }
    }
    kani::cover!(l == usize::MAX || l == 2 || l == 5 || l == 8, "regime boundary reached");
    core::mem::forget(out);
    core::mem::forget(trace);
    core::mem::forget(mapper);
}

macro_rules! c08_chain {
    ($name:ident, $e:expr, $c1:expr, $c2:expr) => {
        #[kani::proof]
        #[kani::stub(crate::mapper::extract_class_name, extract_class_name_stub)]
        #[kani::unwind(6)]
        fn $name() {
            c08_mapper_chain::<$e, $c1, $c2>();
        }
    };
}
c08_chain!(c08_mapper_chain_none, 0, 0, 0);
c08_chain!(c08_mapper_chain_known, 1, 0, 0);
c08_chain!(c08_mapper_chain_unknown, 2, 0, 0);
c08_chain!(c08_mapper_chain_known_unknown_known, 1, 2, 1);
c08_chain!(c08_mapper_chain_unknown_known_unknown, 2, 1, 2);
c08_chain!(c08_mapper_chain_none_unknown, 0, 2, 0);

macro_rules! c08_frames {
    ($name:ident, $k:expr, $r:expr) => {
        #[kani::proof]
        #[kani::stub(crate::mapper::extract_class_name, extract_class_name_stub)]
        #[kani::unwind(6)]
        fn $name() {
            c08_mapper_frames::<$k, $r>();
        }
    };
}
c08_frames!(c08_mapper_frames_unknown_r0, false, 0);
c08_frames!(c08_mapper_frames_unknown_r2, false, 2);

/// C08 (mapper), smallest frame shape: one frame, one mapping entry (1..=5 -> f),
/// symbolic line: replaced by exactly its remapped frame, or kept unchanged.
#[kani::proof]
#[kani::stub(crate::mapper::extract_class_name, extract_class_name_stub)]
#[kani::unwind(6)]
fn c08_mapper_one_frame() {
    c08_mapper_small::<false>();
}

/// Same with an unresolvable frame (unknown class) in front of it.
#[kani::proof]
#[kani::stub(crate::mapper::extract_class_name, extract_class_name_stub)]
#[kani::unwind(6)]
fn c08_mapper_two_frames() {
    c08_mapper_small::<true>();
}

fn c08_mapper_small<const LEAD: bool>() {
    let mut all = Vec::with_capacity(1);
    all.push(member("f", 1, 5, 10, Some(14)));
    let mut members = HashMap::new();
    members.insert("m", ClassMembers { all_mappings: all, mappings_by_params: Default::default() });
    let mut classes = HashMap::new();
    classes.insert("a", ClassMapping { original: "A", obfuscated: "a", file_name: None, members });
    let mapper = ProguardMapper { classes };
    let l: usize = kani::any();
    let frames = if LEAD {
        vec![StackFrame::with_file("q", "m", 7, "U"), StackFrame::with_file("a", "m", l, "S")]
    } else {
        vec![StackFrame::with_file("a", "m", l, "S")]
    };
    let k = if LEAD { 1 } else { 0 };
    let trace = StackTrace { exception: None, frames, cause: None };
    let out = mapper.remap_stacktrace_typed(&trace);
    assert!(out.frames.len() == k + 1, "C08: frame count");
    if LEAD {
        assert!(out.frames[0] == trace.frames[0], "C08: unresolved leading frame not kept unchanged");
    }
    if l >= 1 && l <= 5 {
        assert!(str_eq(out.frames[k].class, "A") && str_eq(out.frames[k].method, "f"), "C08: remapped frame");
        assert!(out.frames[k].line == 10 + l - 1, "C08: remapped line");
    } else {
        assert!(out.frames[k] == trace.frames[k], "C08: unresolved frame not kept unchanged");
    }
    core::mem::forget(out);
    core::mem::forget(trace);
    core::mem::forget(mapper);
}

// ------------------------------------------------------------------ exported single steps (for the differential harnesses in cache::verif_harness)

/// One step of the *mapper* kernel on one entry given as plain numbers/strings.
pub(crate) fn mapper_step_one<'a>(
    startline: usize,
    endline: usize,
    original_class: Option<&'a str>,
    original_file: Option<&'a str>,
    original: &'a str,
    original_startline: usize,
    original_endline: Option<usize>,
    frame: &mut StackFrame<'a>,
) -> Option<StackFrame<'a>> {
    let ents = [MemberMapping { startline, endline, original_class, original_file, original, original_startline, original_endline }];
    let mut it = ents.iter();
    if frame.parameters.is_none() {
        iterate_with_lines(frame, &mut it)
    } else {
        iterate_without_lines(frame, &mut it)
    }
}


// ------------------------------------------------------------------ Tier P: the real builder on an injected record stream
use crate::mapping::LineMapping;
use crate::verif_support::inject::{self, bad, cls, fld, hdr, mth, Item};
use crate::verif_support::pspec;

pub(crate) const LIM: usize = 0xffff_ffff;

/// Exact model of `extract_class_name` (text after the last '.', up to the first
/// '$'), with plain byte loops instead of `str::split` (whose memchr machinery
/// explodes under CBMC). Proved equal to the real function by `s_extract_class_name_*`.
pub(crate) fn extract_class_name_model(full_path: &str) -> Option<&str> {
    Some(spec::outer_simple_name(full_path))
}

/// The mapper never copies strings: every name it returns is the very slice (pointer
/// and length) of the record it came from, so results are compared by identity
/// (stronger than content equality, and free of byte loops over symbolic pointers).
fn same(a: &str, b: &str) -> bool {
    a.as_ptr() == b.as_ptr() && a.len() == b.len()
}

fn opt_same(a: Option<&str>, b: Option<&str>) -> bool {
    match (a, b) {
        (None, None) => true,
        (Some(x), Some(y)) => same(x, y),
        _ => false,
    }
}

/// Build the real mapper from the stream and compare a line-based query,
/// the method lookup and the class lookup against the stream-level spec.
fn p_check_lines<const N: usize>(recs: [Item; N], param_index: bool, class: &'static str, method: &'static str) {
    let src = inject::set(&recs);
    let mapper = ProguardMapper::new_with_param_mapping(ProguardMapping::new(src), param_index);
    let line: usize = kani::any();
    let frame_file = if kani::any() { Some(FRAME_FILE) } else { None };
    let mut exp = [pspec::NO_EXP; N];
    let n = pspec::expected_with_lines(&recs, class, method, line, frame_file, &mut exp);
    let frame = StackFrame { class, method, line, file: frame_file, parameters: None };
    let mut it = mapper.remap_frame(&frame);
    let mut k = 0;
    while k < N {
        let got = it.next();
        if k < n {
            let e = exp[k].unwrap();
            let g = match got {
                Some(g) => g,
                None => panic!("C01: expected frame missing (builder)"),
            };
            assert!(same(g.class, e.class), "C01: class (builder)");
            assert!(same(g.method, e.method), "C01: method (builder)");
            if let Some(l) = e.line {
                assert!(g.line as u64 == l, "C01: original line (builder)");
            }
            assert!(opt_same(g.file, e.file), "C01: file (builder)");
            assert!(g.parameters.is_none());
        } else {
            assert!(got.is_none(), "C01: extra frame (builder)");
        }
        k += 1;
    }
    assert!(it.next().is_none(), "C01: extra frame at the end (builder)");
    // C04: method and class lookup
    let want_m = pspec::expected_method(&recs, class, method);
    match (mapper.remap_method(class, method), want_m) {
        (None, None) => {}
        (Some((c, m)), Some((wc, wm))) => assert!(same(c, wc) && same(m, wm), "C04: remap_method answer (builder)"),
        _ => panic!("C04: remap_method answers iff unambiguous (builder)"),
    }
    let want_c = pspec::class_of(&recs, class).map(|x| x.1);
    assert!(opt_same(mapper.remap_class(class), want_c), "C04: remap_class (builder)");
    kani::cover!(n == 0, "no frame expected");
    kani::cover!(n >= 1, "at least one frame expected");
    core::mem::forget(mapper);
}

macro_rules! p_lines {
    ($name:ident, $uw:expr, $pi:expr, $class:expr, $method:expr, $recs:expr) => {
        #[kani::proof]
        #[kani::stub(crate::mapper::extract_class_name, extract_class_name_model)]
        #[kani::unwind($uw)]
        fn $name() {
            p_check_lines($recs, $pi, $class, $method);
        }
    };
}
p_lines!(p_mapper_1m, 5, false, "a", "m", [cls("A", "a"), mth("f", "m", "", None, inject::any_lm(LIM))]);
p_lines!(p_mapper_file_1m, 12, false, "a", "m", [cls("A", "a"), hdr("sourceFile", Some("F")), mth("f", "m", "", None, inject::any_lm(LIM))]);
p_lines!(p_mapper_1m_with_index, 5, true, "a", "m", [cls("A", "a"), mth("f", "m", "I", Some("X"), inject::any_lm(LIM))]);
p_lines!(p_mapper_dupclass, 6, false, "a", "m", [cls("A", "a"), mth("f", "m", "", None, inject::NO_LM), cls("B", "a"), mth("g", "m", "", None, inject::any_lm(LIM))]);

/// Build the real mapper *with* the parameter index and compare a
/// parameter-based query against the stream-level spec (C03), and check that
/// line-based answers do not depend on the index having been requested (C02).
fn p_check_params<const N: usize>(recs: [Item; N], class: &'static str, method: &'static str, params: &'static str) {
    let src = inject::set(&recs);
    let mapper = ProguardMapper::new_with_param_mapping(ProguardMapping::new(src), true);
    let mut exp = [pspec::NO_EXP; N];
    let n = pspec::expected_by_params(&recs, class, method, params, &mut exp);
    let frame = StackFrame::with_parameters(class, method, params);
    let mut it = mapper.remap_frame(&frame);
    let mut k = 0;
    while k < N {
        let got = it.next();
        if k < n {
            let e = exp[k].unwrap();
            let g = match got {
                Some(g) => g,
                None => panic!("C03: expected frame missing"),
            };
            assert!(same(g.class, e.class), "C03: class");
            assert!(same(g.method, e.method), "C03: method");
            assert!(g.line == 0 && g.file.is_none(), "C03: line 0 and no file");
            assert!(g.parameters == Some(params), "C03: parameters not carried over");
        } else {
            assert!(got.is_none(), "C03: extra frame (inlined callee, duplicate, or leak from another class)");
        }
        k += 1;
    }
    assert!(it.next().is_none(), "C03: extra frame at the end");
    // a different argument string matches nothing
    assert!(mapper.remap_frame(&StackFrame::with_parameters(class, method, "Z")).next().is_none(), "C03: unknown argument string answered");
    kani::cover!(n >= 1, "a frame expected");
    core::mem::forget(mapper);
}

macro_rules! p_params {
    ($name:ident, $uw:expr, $class:expr, $method:expr, $params:expr, $recs:expr) => {
        #[kani::proof]
        #[kani::stub(crate::mapper::extract_class_name, extract_class_name_model)]
        #[kani::unwind($uw)]
        fn $name() {
            p_check_params($recs, $class, $method, $params);
        }
    };
}
// (two method records inside one class block - the inline filter and the duplicate
// filter proper - run out of memory: 21-28 GB in CBMC's propositional reduction, measured)
p_params!(p_mapper_params_basic, 5, "a", "m", "I", [cls("A", "a"), mth("f", "m", "I", None, inject::any_lm(LIM))]);
p_params!(p_mapper_params_reset, 6, "b", "m", "I", [cls("A", "a"), mth("f", "m", "I", None, inject::NO_LM), cls("B", "b"), mth("f", "m", "I", Some("X"), inject::any_lm(LIM))]);
