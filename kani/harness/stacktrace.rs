//! Harnesses living inside `crate::stacktrace` (child module: sees private items).
#![allow(dead_code, unused_imports, clippy::all)]

use super::*;
use crate::verif_support::stubs::utf8_valid;

fn text_alphabet(c: u8) -> bool {
    // frame/throwable delimiters, letters, a digit, space/tab, and the two bytes of U+00E9
    matches!(c, b'a' | b't' | b' ' | b'(' | b')' | b'.' | b':' | b'1' | b'\t' | 0xC3 | 0xA9)
}

/// C13 (line classifiers): `parse_frame` and `parse_throwable` never panic on
/// any valid-UTF-8 text of N bytes over an alphabet made of their own
/// delimiters plus a 2-byte character (slice boundaries), and whatever they
/// return is built from sub-slices of the input. Default Kani checks are on.
fn c13_classifiers<const N: usize>() {
    let buf: [u8; N] = kani::any();
    let mut i = 0;
    while i < N {
        kani::assume(text_alphabet(buf[i]));
        i += 1;
    }
    kani::assume(utf8_valid(&buf));
    let line = unsafe { core::str::from_utf8_unchecked(&buf) };
    if let Some(f) = parse_frame(line) {
        assert!(f.class.len() + f.method.len() + f.file.map_or(0, |x| x.len()) < N, "C13: frame parts longer than the line");
        kani::cover!(true, "a frame was recognised");
    }
    if let Some(t) = parse_throwable(line) {
        assert!(t.class.len() <= N, "C13: throwable class longer than the line");
        assert!(!t.class.as_bytes().contains(&b' '), "C17: throwable class with a space");
    }
}

macro_rules! c13_cls {
    ($name:ident, $n:expr, $uw:expr) => {
        #[kani::proof]
        #[kani::stub(core::slice::memchr::memchr, crate::java::verif_harness::memchr_model)]
        #[kani::stub(core::slice::memchr::memrchr, crate::java::verif_harness::memrchr_model)]
        #[kani::unwind($uw)]
        fn $name() {
            c13_classifiers::<$n>();
        }
    };
}
c13_cls!(c13_classifiers_3, 3, 6);
c13_cls!(c13_classifiers_5, 5, 8);
c13_cls!(c13_classifiers_8, 8, 11);

/// C13/C17 (frame lines): `at ` + K symbolic bytes + `)` - long enough for the
/// recogniser to get past its prefix/suffix test. Whenever a frame is returned
/// its parts are exactly the pieces of the line: `at <class>.<method>(<file>:<line>)`
/// with the class/method split at the last dot before the first '(' and the
/// file/line split at the first ':' after it; never a panic.
fn c13_frame_template<const K: usize>() {
    let mid: [u8; K] = kani::any();
    let mut i = 0;
    while i < K {
        kani::assume(text_alphabet(mid[i]) && mid[i] != b'\t');
        i += 1;
    }
    kani::assume(utf8_valid(&mid));
    let mut buf = [0u8; 16];
    buf[0] = b'a';
    buf[1] = b't';
    buf[2] = b' ';
    i = 0;
    while i < K {
        buf[3 + i] = mid[i];
        i += 1;
    }
    buf[3 + K] = b')';
    let line = unsafe { core::str::from_utf8_unchecked(&buf[..K + 4]) };
    if let Some(f) = parse_frame(line) {
        // reassemble: class '.' method '(' file ':' digits
        let file = f.file.unwrap();
        assert!(f.class.len() + 1 + f.method.len() + 1 + file.len() + 1 <= K, "C17: frame parts do not fit the line");
        assert!(f.class.as_ptr() == unsafe { buf.as_ptr().add(3) }, "C17: class does not start after `at `");
        assert!(!f.method.as_bytes().contains(&b'.') && !f.method.as_bytes().contains(&b'('), "C17: method contains a delimiter");
        assert!(!file.as_bytes().contains(&b':'), "C17: file contains ':'");
        kani::cover!(f.line == 1, "frame with line 1");
        kani::cover!(f.line == 11, "frame with line 11");
    }
}

#[kani::proof]
#[kani::stub(core::slice::memchr::memchr, crate::java::verif_harness::memchr_model)]
#[kani::stub(core::slice::memchr::memrchr, crate::java::verif_harness::memrchr_model)]
#[kani::unwind(12)]
fn c13_frame_template_6() {
    c13_frame_template::<6>();
}

#[kani::proof]
#[kani::stub(core::slice::memchr::memchr, crate::java::verif_harness::memchr_model)]
#[kani::stub(core::slice::memchr::memrchr, crate::java::verif_harness::memrchr_model)]
#[kani::unwind(13)]
fn c13_frame_template_7() {
    c13_frame_template::<7>();
}
