//! Exact models of library routines whose real implementations are
//! intractable for CBMC at symbolic lengths (word-at-a-time UTF-8 validation
//! with pointer-alignment arithmetic; LEB128 through `io::Read`/`io::Error`).
//! Each model is proved equal to the real function by a solver harness
//! (`s_*` harnesses, thorough tier of C12) on all inputs up to a stated size.

/// Exact UTF-8 well-formedness (Unicode 15, Table 3-7): no overlongs, no
/// surrogates, nothing above U+10FFFF, no truncated sequences.
pub fn utf8_valid(v: &[u8]) -> bool {
    let n = v.len();
    let mut i = 0;
    while i < n {
        let b = v[i];
        if b < 0x80 {
            i += 1;
            continue;
        }
        let (need, lo, hi): (usize, u8, u8) = if b >= 0xC2 && b <= 0xDF {
            (1, 0x80, 0xBF)
        } else if b == 0xE0 {
            (2, 0xA0, 0xBF)
        } else if (b >= 0xE1 && b <= 0xEC) || b == 0xEE || b == 0xEF {
            (2, 0x80, 0xBF)
        } else if b == 0xED {
            (2, 0x80, 0x9F)
        } else if b == 0xF0 {
            (3, 0x90, 0xBF)
        } else if b >= 0xF1 && b <= 0xF3 {
            (3, 0x80, 0xBF)
        } else if b == 0xF4 {
            (3, 0x80, 0x8F)
        } else {
            return false;
        };
        if n - i <= need {
            return false;
        }
        let c1 = v[i + 1];
        if c1 < lo || c1 > hi {
            return false;
        }
        let mut k = 2;
        while k <= need {
            let c = v[i + k];
            if c < 0x80 || c > 0xBF {
                return false;
            }
            k += 1;
        }
        i += need + 1;
    }
    true
}

const UTF8_ERR: Result<&'static str, core::str::Utf8Error> = core::str::from_utf8(&[0xff]);

/// Model of `core::str::from_utf8`: exact on Ok/Err and on the Ok value. The
/// `Utf8Error` payload (valid_up_to / error_len) is *not* modelled: every error
/// is the error of `from_utf8(&[0xff])`. No property observes that payload.
pub fn from_utf8_model(v: &[u8]) -> Result<&str, core::str::Utf8Error> {
    if utf8_valid(v) {
        Ok(unsafe { core::str::from_utf8_unchecked(v) })
    } else {
        match UTF8_ERR {
            Err(e) => Err(e),
            Ok(_) => unreachable!(),
        }
    }
}

/// Model of `watto::StringTable::read`: LEB128 length prefix at `offset`, then
/// that many bytes of UTF-8. Exact on Ok/Err and on the Ok value; every error
/// is reported as `OutOfBounds` (the crate never inspects the error kind: all
/// call sites use `.ok()`, `let Ok(..) else`, `unwrap_or` or `is_ok`).
pub fn strtab_read_model(string_bytes: &[u8], offset: usize) -> Result<&str, watto::ReadStringError> {
    if offset > string_bytes.len() {
        return Err(watto::ReadStringError::OutOfBounds);
    }
    let mut pos = offset;
    let mut result: u64 = 0;
    let mut shift: u32 = 0;
    loop {
        if pos >= string_bytes.len() {
            // read_exact hits the end of the buffer
            return Err(watto::ReadStringError::OutOfBounds);
        }
        let b = string_bytes[pos];
        pos += 1;
        if shift == 63 && b != 0x00 && b != 0x01 {
            // leb128::read::Error::Overflow (after draining continuation bytes; still an error)
            return Err(watto::ReadStringError::OutOfBounds);
        }
        result |= ((b & 0x7f) as u64) << shift;
        if b & 0x80 == 0 {
            break;
        }
        shift += 7;
    }
    let len = result as usize;
    let rest = &string_bytes[pos..];
    if len > rest.len() {
        return Err(watto::ReadStringError::OutOfBounds);
    }
    let s = &rest[..len];
    if utf8_valid(s) {
        Ok(unsafe { core::str::from_utf8_unchecked(s) })
    } else {
        Err(watto::ReadStringError::OutOfBounds)
    }
}
