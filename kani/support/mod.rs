//! Verification support code compiled into the crate only in the
//! verification build (cfg `kani` or `proguard_verif`).
#![allow(dead_code, missing_docs, unused_imports, clippy::all)]

pub mod collections;
pub mod strtab;
#[cfg(kani)]
pub mod inject;
#[cfg(kani)]
pub mod spec;
#[cfg(kani)]
pub mod pspec;
#[cfg(kani)]
pub mod stubs;
pub mod util;
