//! Reference models (oracles), written from the property statements and the
//! ProGuard retrace manual - not from the implementation.

/// One mapping entry of a (class, obfuscated method), in the abstract form
/// both representations encode: `range` = obfuscated line range if the
/// record has a usable one (both numbers > 0); `orig` = what was printed
/// after the argument list.
#[derive(Clone, Copy)]
pub struct Entry {
    /// usable obfuscated range (start, end), both > 0, or None
    pub range: Option<(u64, u64)>,
    /// original start line as stored (identity range start when nothing was printed)
    pub os: u64,
    /// original end line: None when only `:os` was printed (call-site line of an inline parent)
    pub oe: Option<u64>,
}

/// Does the entry apply to `line`? Entries without a usable range always apply.
pub fn applies(e: &Entry, line: u64) -> bool {
    match e.range {
        None => true,
        Some((s, end)) => s <= line && line <= end,
    }
}

/// The ProGuard original-line rule (mathematical, no wrap-around): returns None
/// when the result does not fit in 64 bits (outside every property's domain).
pub fn orig_line(e: &Entry, line: u64) -> Option<u64> {
    match e.range {
        // no usable range: line 0 (stored os is 0 in that case)
        None => Some(e.os),
        Some((s, _)) => match e.oe {
            // only `:os` printed: call-site line
            None => Some(e.os),
            // single-line collapse
            Some(oe) if oe == e.os => Some(e.os),
            // range-to-range offset
            Some(_) => e.os.checked_add(line - s),
        },
    }
}

/// Outer simple class name: text after the last '.', up to the first '$'.
pub fn outer_simple_name(class: &str) -> &str {
    let b = class.as_bytes();
    let mut start = 0;
    let mut i = 0;
    while i < b.len() {
        if b[i] == b'.' {
            start = i + 1;
        }
        i += 1;
    }
    let mut end = start;
    while end < b.len() && b[end] != b'$' {
        end += 1;
    }
    // ASCII delimiters: always on char boundaries
    &class[start..end]
}

pub const SYNTHETIC_MARKER: &str = "R8$$SyntheticClass";

/// Source-file rule: `entry_file` is the class's sourceFile at the time the
/// entry was recorded, `entry_class` the foreign original class if any,
/// `class` the (original) class of the frame, `frame_file` the frame's file.
pub fn orig_file<'a>(
    entry_file: Option<&'a str>,
    entry_class: Option<&'a str>,
    class: &'a str,
    frame_file: Option<&'a str>,
) -> Option<&'a str> {
    match entry_file {
        Some(f) => {
            if f == SYNTHETIC_MARKER {
                Some(outer_simple_name(entry_class.unwrap_or(class)))
            } else {
                Some(f)
            }
        }
        None => {
            if entry_class.is_some() {
                None
            } else {
                frame_file
            }
        }
    }
}
