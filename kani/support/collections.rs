//! Heap-light models of the std containers the crate uses.
//!
//! Trusted base: these stand in for `std::collections::{HashMap, HashSet, BTreeMap}`
//! inside `src/mapper.rs` and `src/cache/raw.rs` in the verification build.
//! They are `Vec`-backed with linear search; `HashMap`/`HashSet` keep insertion
//! order and expose **no iteration** (so code that would depend on hash order
//! does not compile in the verification build); `BTreeMap` keeps keys sorted
//! by `Ord`, which is the documented iteration order of the real one.
//! The repository's own test-suite is run natively against these models by
//! `./check --validate-models`.

use core::borrow::Borrow;

/// Key equality / ordering used by the models. Semantically `==` / `Ord::cmp`; for
/// strings it is written as an explicit byte loop with a *constant* trip count
/// (`MAX_KEY` bytes, asserted to be enough) instead of `memcmp`: under CBMC the
/// lengths of strings that come out of a `ProguardRecord::Method` are symbolic for
/// symbolic execution (they are constants only for the solver), and `memcmp` is then
/// unwound to the harness's unwinding bound at every comparison.
pub const MAX_KEY: usize = 4;

pub trait ModelKey {
    fn keq(&self, other: &Self) -> bool;
    fn kcmp(&self, other: &Self) -> core::cmp::Ordering;
}

impl ModelKey for str {
    fn keq(&self, other: &str) -> bool {
        let (a, b) = (self.as_bytes(), other.as_bytes());
        #[cfg(kani)]
        {
            assert!(a.len() <= MAX_KEY && b.len() <= MAX_KEY, "model: key longer than MAX_KEY");
            if a.len() != b.len() {
                return false;
            }
            let mut eq = true;
            let mut i = 0;
            while i < MAX_KEY {
                if i < a.len() && a[i] != b[i] {
                    eq = false;
                }
                i += 1;
            }
            eq
        }
        #[cfg(not(kani))]
        {
            a == b
        }
    }
    fn kcmp(&self, other: &str) -> core::cmp::Ordering {
        let (a, b) = (self.as_bytes(), other.as_bytes());
        #[cfg(kani)]
        {
            use core::cmp::Ordering::*;
            assert!(a.len() <= MAX_KEY && b.len() <= MAX_KEY, "model: key longer than MAX_KEY");
            let mut res = Equal;
            let mut i = 0;
            while i < MAX_KEY {
                if res == Equal && i < a.len() && i < b.len() {
                    if a[i] < b[i] {
                        res = Less;
                    } else if a[i] > b[i] {
                        res = Greater;
                    }
                }
                i += 1;
            }
            if res == Equal {
                a.len().cmp(&b.len())
            } else {
                res
            }
        }
        #[cfg(not(kani))]
        {
            a.cmp(b)
        }
    }
}

impl<'a> ModelKey for &'a str {
    fn keq(&self, other: &Self) -> bool {
        (**self).keq(*other)
    }
    fn kcmp(&self, other: &Self) -> core::cmp::Ordering {
        (**self).kcmp(*other)
    }
}

impl<A: ModelKey, B: ModelKey> ModelKey for (A, B) {
    fn keq(&self, other: &Self) -> bool {
        self.0.keq(&other.0) && self.1.keq(&other.1)
    }
    fn kcmp(&self, other: &Self) -> core::cmp::Ordering {
        match self.0.kcmp(&other.0) {
            core::cmp::Ordering::Equal => self.1.kcmp(&other.1),
            o => o,
        }
    }
}

impl<A: ModelKey, B: ModelKey, C: ModelKey> ModelKey for (A, B, C) {
    fn keq(&self, other: &Self) -> bool {
        self.0.keq(&other.0) && self.1.keq(&other.1) && self.2.keq(&other.2)
    }
    fn kcmp(&self, other: &Self) -> core::cmp::Ordering {
        match self.0.kcmp(&other.0) {
            core::cmp::Ordering::Equal => match self.1.kcmp(&other.1) {
                core::cmp::Ordering::Equal => self.2.kcmp(&other.2),
                o => o,
            },
            o => o,
        }
    }
}

#[derive(Clone, Debug)]
pub struct HashMap<K, V> {
    items: Vec<(K, V)>,
}

impl<K, V> Default for HashMap<K, V> {
    fn default() -> Self {
        Self { items: Vec::new() }
    }
}

impl<K: Eq + ModelKey, V> HashMap<K, V> {
    pub fn new() -> Self {
        Self { items: Vec::new() }
    }

    pub fn len(&self) -> usize {
        self.items.len()
    }

    pub fn is_empty(&self) -> bool {
        self.items.is_empty()
    }

    fn pos<Q: ?Sized + Eq + ModelKey>(&self, k: &Q) -> Option<usize>
    where
        K: Borrow<Q>,
    {
        let mut i = 0;
        while i < self.items.len() {
            if self.items[i].0.borrow().keq(k) {
                return Some(i);
            }
            i += 1;
        }
        None
    }

    pub fn insert(&mut self, k: K, v: V) -> Option<V> {
        match self.pos(&k) {
            Some(i) => Some(core::mem::replace(&mut self.items[i].1, v)),
            None => {
                self.items.push((k, v));
                None
            }
        }
    }

    pub fn get<Q: ?Sized + Eq + ModelKey>(&self, k: &Q) -> Option<&V>
    where
        K: Borrow<Q>,
    {
        match self.pos(k) {
            Some(i) => Some(&self.items[i].1),
            None => None,
        }
    }

    pub fn get_mut<Q: ?Sized + Eq + ModelKey>(&mut self, k: &Q) -> Option<&mut V>
    where
        K: Borrow<Q>,
    {
        match self.pos(k) {
            Some(i) => Some(&mut self.items[i].1),
            None => None,
        }
    }

    pub fn remove<Q: ?Sized + Eq + ModelKey>(&mut self, k: &Q) -> Option<V>
    where
        K: Borrow<Q>,
    {
        match self.pos(k) {
            Some(i) => Some(self.items.remove(i).1),
            None => None,
        }
    }

    pub fn contains_key<Q: ?Sized + Eq + ModelKey>(&self, k: &Q) -> bool
    where
        K: Borrow<Q>,
    {
        self.pos(k).is_some()
    }

    pub fn entry(&mut self, k: K) -> Entry<'_, K, V> {
        let pos = self.pos(&k);
        Entry {
            items: &mut self.items,
            key: k,
            pos,
        }
    }

    pub fn clear(&mut self) {
        self.items.clear()
    }
}

pub struct Entry<'a, K, V> {
    items: &'a mut Vec<(K, V)>,
    key: K,
    pos: Option<usize>,
}

impl<'a, K, V> Entry<'a, K, V> {
    pub fn or_insert_with<F: FnOnce() -> V>(self, f: F) -> &'a mut V {
        match self.pos {
            Some(i) => &mut self.items[i].1,
            None => {
                self.items.push((self.key, f()));
                let n = self.items.len() - 1;
                &mut self.items[n].1
            }
        }
    }

    pub fn or_insert(self, v: V) -> &'a mut V {
        self.or_insert_with(|| v)
    }

    pub fn or_default(self) -> &'a mut V
    where
        V: Default,
    {
        self.or_insert_with(V::default)
    }
}

#[derive(Clone, Debug)]
pub struct HashSet<K> {
    items: Vec<K>,
}

impl<K> Default for HashSet<K> {
    fn default() -> Self {
        Self { items: Vec::new() }
    }
}

impl<K: Eq + ModelKey> HashSet<K> {
    pub fn new() -> Self {
        Self { items: Vec::new() }
    }

    pub fn len(&self) -> usize {
        self.items.len()
    }

    pub fn contains(&self, k: &K) -> bool {
        let mut i = 0;
        while i < self.items.len() {
            if self.items[i].keq(k) {
                return true;
            }
            i += 1;
        }
        false
    }

    pub fn insert(&mut self, k: K) -> bool {
        if self.contains(&k) {
            false
        } else {
            self.items.push(k);
            true
        }
    }

    pub fn clear(&mut self) {
        self.items.clear()
    }
}

/// Sorted-vector model of `BTreeMap`: iteration is in ascending key order.
#[derive(Clone, Debug)]
pub struct BTreeMap<K, V> {
    items: Vec<(K, V)>,
}

impl<K, V> Default for BTreeMap<K, V> {
    fn default() -> Self {
        Self { items: Vec::new() }
    }
}

impl<K: Ord + ModelKey, V> BTreeMap<K, V> {
    pub fn new() -> Self {
        Self { items: Vec::new() }
    }

    pub fn len(&self) -> usize {
        self.items.len()
    }

    pub fn is_empty(&self) -> bool {
        self.items.is_empty()
    }

    /// Ok(i): key at i; Err(i): insertion point.
    fn search(&self, k: &K) -> Result<usize, usize> {
        let mut i = 0;
        while i < self.items.len() {
            match self.items[i].0.kcmp(k) {
                core::cmp::Ordering::Less => {}
                core::cmp::Ordering::Equal => return Ok(i),
                core::cmp::Ordering::Greater => return Err(i),
            }
            i += 1;
        }
        Err(i)
    }

    pub fn insert(&mut self, k: K, v: V) -> Option<V> {
        match self.search(&k) {
            Ok(i) => Some(core::mem::replace(&mut self.items[i].1, v)),
            Err(i) => {
                self.items.insert(i, (k, v));
                None
            }
        }
    }

    pub fn get(&self, k: &K) -> Option<&V> {
        match self.search(k) {
            Ok(i) => Some(&self.items[i].1),
            Err(_) => None,
        }
    }

    pub fn get_mut(&mut self, k: &K) -> Option<&mut V> {
        match self.search(k) {
            Ok(i) => Some(&mut self.items[i].1),
            Err(_) => None,
        }
    }

    pub fn remove(&mut self, k: &K) -> Option<V> {
        match self.search(k) {
            Ok(i) => Some(self.items.remove(i).1),
            Err(_) => None,
        }
    }

    pub fn contains_key(&self, k: &K) -> bool {
        self.search(k).is_ok()
    }

    pub fn entry(&mut self, k: K) -> BEntry<'_, K, V> {
        let pos = self.search(&k);
        BEntry {
            items: &mut self.items,
            key: k,
            pos,
        }
    }

    pub fn values(&self) -> impl Iterator<Item = &V> + '_ {
        self.items.iter().map(|kv| &kv.1)
    }

    pub fn keys(&self) -> impl Iterator<Item = &K> + '_ {
        self.items.iter().map(|kv| &kv.0)
    }

    pub fn iter(&self) -> impl Iterator<Item = (&K, &V)> + '_ {
        self.items.iter().map(|kv| (&kv.0, &kv.1))
    }

    pub fn into_values(self) -> impl Iterator<Item = V> {
        self.items.into_iter().map(|kv| kv.1)
    }
}

impl<K: Ord + ModelKey, V> IntoIterator for BTreeMap<K, V> {
    type Item = (K, V);
    type IntoIter = std::vec::IntoIter<(K, V)>;
    fn into_iter(self) -> Self::IntoIter {
        self.items.into_iter()
    }
}

pub struct BEntry<'a, K, V> {
    items: &'a mut Vec<(K, V)>,
    key: K,
    pos: Result<usize, usize>,
}

impl<'a, K, V> BEntry<'a, K, V> {
    pub fn or_insert_with<F: FnOnce() -> V>(self, f: F) -> &'a mut V {
        match self.pos {
            Ok(i) => &mut self.items[i].1,
            Err(i) => {
                self.items.insert(i, (self.key, f()));
                &mut self.items[i].1
            }
        }
    }

    pub fn or_insert(self, v: V) -> &'a mut V {
        self.or_insert_with(|| v)
    }

    pub fn or_default(self) -> &'a mut V
    where
        V: Default,
    {
        self.or_insert_with(V::default)
    }
}
