//! Record injection: the builders and folds are run on a harness-provided
//! record stream instead of on parsed text (the parser is covered separately by
//! the C05/C06 harnesses, and both consumers read nothing but the record stream).
//!
//! Stream items are **plain structs** (kind + fields), and every
//! `ProguardRecord` handed to the code under test is built as a fresh enum
//! literal from them. Measured reasons (Kani 0.68 / CBMC 6.11): an enum value
//! that was copied bytewise or cloned loses either its discriminant or its
//! fields for CBMC's constant propagation (reads go through casts into the
//! variant union), after which every string of a concrete stream is a symbolic
//! pointer and the builders do not finish.
//!
//! The position in the stream is carried by the *remaining length* of the dummy
//! source slice (one byte per item), exactly like the real iterator carries it
//! by the remaining bytes, so cloned or peeked iterators stay independent.
use crate::mapping::{LineMapping, ParseError, ProguardRecord};

pub const K_ERR: u8 = 0;
pub const K_HEADER: u8 = 1;
pub const K_CLASS: u8 = 2;
pub const K_FIELD: u8 = 3;
pub const K_METHOD: u8 = 4;

/// A line mapping in plain form (`present == false`: the record has none).
#[derive(Clone, Copy)]
pub struct Lm {
    pub present: bool,
    pub s: usize,
    pub e: usize,
    pub has_os: bool,
    pub os: usize,
    pub has_oe: bool,
    pub oe: usize,
}

pub const NO_LM: Lm = Lm { present: false, s: 0, e: 0, has_os: false, os: 0, has_oe: false, oe: 0 };

impl Lm {
    pub fn to_line_mapping(&self) -> Option<LineMapping> {
        if self.present {
            Some(LineMapping {
                startline: self.s,
                endline: self.e,
                original_startline: if self.has_os { Some(self.os) } else { None },
                original_endline: if self.has_oe { Some(self.oe) } else { None },
            })
        } else {
            None
        }
    }
}

/// One stream item. Field use per kind:
/// header: a = key, has_b/b = value; class: a = original, b = obfuscated;
/// field: a = original, b = obfuscated; method: a = original, b = obfuscated,
/// c = arguments, has_d/d = original class, lm; err: nothing.
#[derive(Clone, Copy)]
pub struct Item {
    pub kind: u8,
    pub a: &'static str,
    pub has_b: bool,
    pub b: &'static str,
    pub c: &'static str,
    pub has_d: bool,
    pub d: &'static str,
    pub lm: Lm,
}

const BLANK: Item = Item { kind: K_ERR, a: "", has_b: false, b: "", c: "", has_d: false, d: "", lm: NO_LM };

impl Item {
    pub fn is_class(&self) -> bool {
        self.kind == K_CLASS
    }
    pub fn is_method(&self) -> bool {
        self.kind == K_METHOD
    }
    pub fn is_member(&self) -> bool {
        self.kind == K_METHOD || self.kind == K_FIELD
    }
    pub fn original_class(&self) -> Option<&'static str> {
        if self.has_d {
            Some(self.d)
        } else {
            None
        }
    }
    /// The record as a fresh enum literal (None for an error item).
    pub fn record(&self) -> Option<ProguardRecord<'static>> {
        if self.kind == K_HEADER {
            Some(ProguardRecord::Header { key: self.a, value: if self.has_b { Some(self.b) } else { None } })
        } else if self.kind == K_CLASS {
            Some(ProguardRecord::Class { original: self.a, obfuscated: self.b })
        } else if self.kind == K_FIELD {
            Some(ProguardRecord::Field { ty: "int", original: self.a, obfuscated: self.b })
        } else if self.kind == K_METHOD {
            // every Option below is written as a literal in its own branch: an Option
            // produced by a helper function (or `if` expression) is merged by value and
            // the niche that also holds ProguardRecord's discriminant stops being constant
            let oc = self.has_d;
            if !self.lm.present {
                if oc {
                    Some(ProguardRecord::Method { ty: "void", original: self.a, obfuscated: self.b, arguments: self.c, original_class: Some(self.d), line_mapping: None })
                } else {
                    Some(ProguardRecord::Method { ty: "void", original: self.a, obfuscated: self.b, arguments: self.c, original_class: None, line_mapping: None })
                }
            } else {
                let lm = self.lm.to_line_mapping();
                if oc {
                    Some(ProguardRecord::Method { ty: "void", original: self.a, obfuscated: self.b, arguments: self.c, original_class: Some(self.d), line_mapping: lm })
                } else {
                    Some(ProguardRecord::Method { ty: "void", original: self.a, obfuscated: self.b, arguments: self.c, original_class: None, line_mapping: lm })
                }
            }
        } else {
            None
        }
    }
}

pub const CAP: usize = 56;
pub static DUMMY: [u8; CAP] = [b'x'; CAP];

// NB: Kani 0.68 aliases a `static mut` whose initial value is all-zero bytes with
// constant allocations holding 0usize (e.g. `Vec::new()`'s `Cap::ZERO`); writing it
// then corrupts every empty Vec (and vice versa). Hence the distinctive non-zero
// initial values (a non-null pointer, a non-zero count).
static BLANK_ITEM: Item = BLANK;
static mut RECS: *const Item = &BLANK_ITEM as *const Item;
static mut TOTAL: usize = 0x7e57_0001;

/// Install the stream (the array must outlive all uses of the mapping); returns
/// the dummy source bytes to build the mapping from.
pub fn set(recs: &[Item]) -> &'static [u8] {
    unsafe {
        RECS = recs.as_ptr();
        TOTAL = recs.len();
    }
    // (not `&DUMMY[..n]`: the generic slice-index machinery costs ~9k symex steps)
    unsafe { core::slice::from_raw_parts(DUMMY.as_ptr(), recs.len()) }
}

pub fn item_at(idx: usize) -> &'static Item {
    unsafe { &*RECS.add(idx) }
}

/// Kani stub with the exact signature of `mapping::parse_proguard_record`
/// (used by the harnesses of the folds in mapping.rs, which consume the
/// `Result` items of `ProguardMapping::iter()`).
pub fn parse_stub(bytes: &[u8]) -> (Result<ProguardRecord, ParseError>, &[u8]) {
    let total = unsafe { TOTAL };
    let it = item_at(total - bytes.len());
    let rest = unsafe { core::slice::from_raw_parts(bytes.as_ptr().add(1), bytes.len() - 1) };
    match it.record() {
        Some(r) => (Ok(r), rest),
        None => (Err(crate::mapping::verif_harness::parse_error_item()), rest),
    }
}

/// `mapping.iter().filter_map(Result::ok)` over the injected stream (see util.rs).
#[derive(Clone)]
pub struct InjectedOk<'s> {
    remaining: usize,
    _p: core::marker::PhantomData<&'s ()>,
}

impl<'s> InjectedOk<'s> {
    pub fn new(remaining: usize) -> Self {
        Self { remaining, _p: core::marker::PhantomData }
    }
}

impl<'s> Iterator for InjectedOk<'s> {
    type Item = ProguardRecord<'s>;
    fn next(&mut self) -> Option<ProguardRecord<'s>> {
        loop {
            if self.remaining == 0 {
                return None;
            }
            let total = unsafe { TOTAL };
            let it = item_at(total - self.remaining);
            self.remaining -= 1;
            if it.kind != K_ERR {
                return it.record();
            }
        }
    }
}

impl<'s> InjectedOk<'s> {
    /// Inherent method: takes precedence over `Iterator::peekable`, so the builders'
    /// `....peekable()` gets the model below instead of `std::iter::Peekable`.
    /// Reason (measured): std's Peekable keeps `Option<Option<ProguardRecord>>`, whose
    /// niche-encoded discriminant CBMC's symex cannot constant-fold; every `next()`
    /// then merges a garbage "peeked" value with the real next record and the record
    /// kinds of a concrete stream become symbolic.
    pub fn peekable(self) -> InjectedPeekable<'s> {
        InjectedPeekable { it: self, slot: ProguardRecord::Field { ty: "", original: "", obfuscated: "" } }
    }
}

/// Model of `Peekable<FilterMap<ProguardRecordIter, _>>` restricted to the two
/// operations the builders use: `next()` and `peek()`. Same semantics: `peek`
/// returns the item the following `next` will return, without consuming it.
pub struct InjectedPeekable<'s> {
    it: InjectedOk<'s>,
    slot: ProguardRecord<'s>,
}

impl<'s> InjectedPeekable<'s> {
    pub fn next(&mut self) -> Option<ProguardRecord<'s>> {
        self.it.next()
    }

    pub fn peek(&mut self) -> Option<&ProguardRecord<'s>> {
        let mut ahead = self.it.clone();
        match ahead.next() {
            Some(r) => {
                self.slot = r;
                Some(&self.slot)
            }
            None => None,
        }
    }
}

// ------------------------------------------------------------------ stream constructors

pub fn cls(original: &'static str, obfuscated: &'static str) -> Item {
    Item { kind: K_CLASS, a: original, b: obfuscated, ..BLANK }
}

pub fn mth(original: &'static str, obfuscated: &'static str, arguments: &'static str, original_class: Option<&'static str>, lm: Lm) -> Item {
    match original_class {
        Some(d) => Item { kind: K_METHOD, a: original, b: obfuscated, c: arguments, has_d: true, d, lm, ..BLANK },
        None => Item { kind: K_METHOD, a: original, b: obfuscated, c: arguments, lm, ..BLANK },
    }
}

pub fn fld(original: &'static str, obfuscated: &'static str) -> Item {
    Item { kind: K_FIELD, a: original, b: obfuscated, ..BLANK }
}

pub fn hdr(key: &'static str, value: Option<&'static str>) -> Item {
    match value {
        Some(b) => Item { kind: K_HEADER, a: key, has_b: true, b, ..BLANK },
        None => Item { kind: K_HEADER, a: key, ..BLANK },
    }
}

/// An unparseable line (the real iterator yields an `Err` item for it).
pub fn bad() -> Item {
    BLANK
}

/// A symbolic line mapping as the parser can produce it (present => both range
/// ends > 0; an original end only together with an original start). `limit`:
/// exclusive upper bound on every number (the properties' domain is < 2^32-1),
/// or 0 for unrestricted 64-bit numbers.
pub fn any_lm(limit: usize) -> Lm {
    if kani::any() {
        some_lm(limit)
    } else {
        NO_LM
    }
}

pub fn some_lm(limit: usize) -> Lm {
    let s: usize = kani::any();
    let e: usize = kani::any();
    kani::assume(s > 0 && e > 0);
    let has_os: bool = kani::any();
    let os: usize = if has_os { kani::any() } else { 0 };
    let has_oe: bool = has_os && kani::any();
    let oe: usize = if has_oe { kani::any() } else { 0 };
    if limit != 0 {
        kani::assume(s < limit && e < limit && os < limit && oe < limit);
    }
    Lm { present: true, s, e, has_os, os, has_oe, oe }
}

/// A concrete line mapping `s:e:...:os:oe`.
pub fn lm(s: usize, e: usize, os: Option<usize>, oe: Option<usize>) -> Lm {
    Lm { present: true, s, e, has_os: os.is_some(), os: os.unwrap_or(0), has_oe: oe.is_some(), oe: oe.unwrap_or(0) }
}
