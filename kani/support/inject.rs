//! placeholder
