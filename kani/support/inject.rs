//! Record injection: a Kani stub for `mapping::parse_proguard_record` that
//! serves records from a harness-provided array instead of parsing text.
//!
//! The position in the stream is carried by the *remaining slice length*
//! exactly like the real iterator carries it by the remaining bytes, so cloned
//! or peeked iterators stay independent. The dummy source has one byte per
//! record. Stream items are `Result<ProguardRecord, ParseError>`, so error
//! items can be injected too (the builders' `filter_map(Result::ok)` runs for
//! real).
use crate::mapping::{ParseError, ProguardRecord};

pub type Item = Result<ProguardRecord<'static>, ParseError<'static>>;

pub static DUMMY: [u8; 64] = [b'x'; 64];

pub const CAP: usize = 56;
const NO_ITEM: Option<Item> = None;
static mut STREAM: [Option<Item>; CAP] = [NO_ITEM; CAP];
static mut TOTAL: usize = 0x7e57_0001; // NB: a `static mut` initialised to 0usize gets aliased with constant allocations (Cap::ZERO) by Kani 0.68

/// Install the stream (copied by value into a static); returns the dummy
/// source bytes to build the mapping from.
pub fn set(recs: &[Item]) -> &'static [u8] {
    unsafe {
        let mut i = 0;
        while i < recs.len() {
            STREAM[i] = Some(recs[i].clone());
            i += 1;
        }
        TOTAL = recs.len();
    }
    &DUMMY[..recs.len()]
}

pub fn item_at(idx: usize) -> Item {
    unsafe {
        match &STREAM[idx] {
            Some(it) => it.clone(),
            None => unreachable!(),
        }
    }
}

/// Stub with the exact signature of `mapping::parse_proguard_record`.
pub fn parse_stub(bytes: &[u8]) -> (Result<ProguardRecord, ParseError>, &[u8]) {
    let total = unsafe { TOTAL };
    let idx = total - bytes.len();
    let item: Item = item_at(idx);
    (item, &bytes[1..])
}

/// Source-level injection point (inserted by tools/instrument.py at the top of
/// `ProguardRecordIter::next` under cfg(kani)): when a stream is installed,
/// serve the next injected item instead of parsing.
pub fn active() -> bool {
    unsafe { TOTAL != 0x7e57_0001 }
}

pub fn next_item<'s>(slice: &mut &'s [u8]) -> Option<Result<ProguardRecord<'s>, ParseError<'s>>> {
    if slice.is_empty() {
        return None;
    }
    let total = unsafe { TOTAL };
    let idx = total - slice.len();
    let item: Item = item_at(idx);
    *slice = &slice[1..];
    Some(item)
}

pub fn dbg_total(n: usize) {
    unsafe { TOTAL = n; }
}
pub fn dbg_dummy(n: usize) -> &'static [u8] {
    &DUMMY[..n]
}
pub fn dbg_stream(recs: &[Item]) {
    unsafe { STREAM[0] = Some(recs[0].clone()); }
}
