//! Record injection: a Kani stub for `mapping::parse_proguard_record` that
//! serves records from a harness-provided array instead of parsing text.
//!
//! The position in the stream is carried by the *remaining slice length*
//! exactly like the real iterator carries it by the remaining bytes, so cloned
//! or peeked iterators stay independent. The dummy source has one byte per
//! record. Stream items are `Result<ProguardRecord, ParseError>`, so error
//! items can be injected too (the builders' `filter_map(Result::ok)` runs for
//! real).
use crate::mapping::{ParseError, ProguardRecord};

pub type Item = Result<ProguardRecord<'static>, ParseError<'static>>;

pub static DUMMY: [u8; 64] = [b'x'; 64];

static mut RECS: *const Item = core::ptr::null();
static mut TOTAL: usize = 0;

/// Install the stream; returns the dummy source bytes to build the mapping from.
pub fn set(recs: &[Item]) -> &'static [u8] {
    unsafe {
        RECS = recs.as_ptr();
        TOTAL = recs.len();
    }
    &DUMMY[..recs.len()]
}

/// Stub with the exact signature of `mapping::parse_proguard_record`.
pub fn parse_stub(bytes: &[u8]) -> (Result<ProguardRecord, ParseError>, &[u8]) {
    let total = unsafe { TOTAL };
    let idx = total - bytes.len();
    let item: Item = unsafe { (*RECS.add(idx)).clone() };
    (item, &bytes[1..])
}

/// Source-level injection point (inserted by tools/instrument.py at the top of
/// `ProguardRecordIter::next` under cfg(kani)): when a stream is installed,
/// serve the next injected item instead of parsing.
pub fn active() -> bool {
    unsafe { !RECS.is_null() }
}

pub fn next_item<'s>(slice: &mut &'s [u8]) -> Option<Result<ProguardRecord<'s>, ParseError<'s>>> {
    if slice.is_empty() {
        return None;
    }
    let total = unsafe { TOTAL };
    let idx = total - slice.len();
    let item: Item = unsafe { (*RECS.add(idx)).clone() };
    *slice = &slice[1..];
    Some(item)
}
