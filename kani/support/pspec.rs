//! Stream-level reference model: what a mapping *means*, computed directly on
//! the record stream (the ProGuard retrace rules and the property statements
//! C01, C03, C04), independent of how `ProguardMapper` / the cache writer
//! store it. Used by the builder (Tier P) harnesses, which run the real
//! `create_proguard_mapper` / `ProguardCache::write` on the same stream.
use super::inject::{Item, Lm, K_CLASS, K_HEADER, K_METHOD};
use super::spec;

pub fn str_eq(a: &str, b: &str) -> bool {
    a.len() == b.len() && a.as_bytes() == b.as_bytes()
}

pub fn opt_str_eq(a: Option<&str>, b: Option<&str>) -> bool {
    match (a, b) {
        (None, None) => true,
        (Some(x), Some(y)) => str_eq(x, y),
        _ => false,
    }
}

/// The abstract entry a method record denotes (record -> entry encoding of the
/// format: no usable range -> always applies, line 0; range without original
/// part -> identity; `:os` only -> call-site line; `:os:oe` -> range to range).
pub fn entry_of(lm: &Lm) -> spec::Entry {
    if !lm.present {
        spec::Entry { range: None, os: 0, oe: None }
    } else if lm.has_os {
        spec::Entry { range: Some((lm.s as u64, lm.e as u64)), os: lm.os as u64, oe: if lm.has_oe { Some(lm.oe as u64) } else { None } }
    } else {
        spec::Entry { range: Some((lm.s as u64, lm.e as u64)), os: lm.s as u64, oe: Some(lm.e as u64) }
    }
}

#[derive(Clone, Copy)]
pub struct Exp {
    pub class: &'static str,
    pub method: &'static str,
    /// None: the mathematical result does not fit 64 bits (outside every domain)
    pub line: Option<u64>,
    pub file: Option<&'static str>,
}

pub const NO_EXP: Option<Exp> = None;

/// Original name of the *last* class line with obfuscated name `class`, and the
/// index of that line in the stream.
pub fn class_of<const N: usize>(recs: &[Item; N], class: &str) -> Option<(usize, &'static str)> {
    let mut found = None;
    let mut i = 0;
    while i < N {
        if recs[i].kind == K_CLASS && str_eq(recs[i].b, class) {
            found = Some((i, recs[i].a));
        }
        i += 1;
    }
    found
}

/// Index one past the last record of the class block starting at `start`.
pub fn block_end<const N: usize>(recs: &[Item; N], start: usize) -> usize {
    let mut i = start + 1;
    while i < N {
        if recs[i].kind == K_CLASS {
            return i;
        }
        i += 1;
    }
    N
}

/// C01: expected frames of a line-based query, in file order.
pub fn expected_with_lines<const N: usize>(
    recs: &[Item; N],
    class: &str,
    method: &str,
    line: usize,
    frame_file: Option<&'static str>,
    out: &mut [Option<Exp>; N],
) -> usize {
    let Some((start, class_original)) = class_of(recs, class) else {
        return 0;
    };
    let end = block_end(recs, start);
    let mut cur_file: Option<&'static str> = None;
    let mut n = 0;
    let mut i = start + 1;
    while i < end {
        let r = &recs[i];
        if r.kind == K_HEADER {
            if str_eq(r.a, "sourceFile") {
                cur_file = if r.has_b { Some(r.b) } else { None };
            }
        } else if r.kind == K_METHOD && str_eq(r.b, method) {
            let e = entry_of(&r.lm);
            if spec::applies(&e, line as u64) {
                out[n] = Some(Exp {
                    class: if r.has_d { r.d } else { class_original },
                    method: r.a,
                    line: spec::orig_line(&e, line as u64),
                    file: spec::orig_file(cur_file, r.original_class(), class_original, frame_file),
                });
                n += 1;
            }
        }
        i += 1;
    }
    n
}

/// Is method record `i` an inlined callee, i.e. is the next record that survives
/// error filtering a method record with the identical obfuscated range?
pub fn is_inlined<const N: usize>(recs: &[Item; N], i: usize) -> bool {
    if !recs[i].lm.present {
        return false;
    }
    let mut j = i + 1;
    while j < N {
        if recs[j].kind != super::inject::K_ERR {
            return recs[j].kind == K_METHOD && recs[j].lm.present && recs[j].lm.s == recs[i].lm.s && recs[j].lm.e == recs[i].lm.e;
        }
        j += 1;
    }
    false
}

/// C03: expected frames of a parameter-based query: the non-inlined entries of
/// the class with that obfuscated name and argument string, one per distinct
/// (obfuscated, arguments, original), in file order, line 0, no file.
pub fn expected_by_params<const N: usize>(
    recs: &[Item; N],
    class: &str,
    method: &str,
    params: &str,
    out: &mut [Option<Exp>; N],
) -> usize {
    let Some((start, class_original)) = class_of(recs, class) else {
        return 0;
    };
    let end = block_end(recs, start);
    let mut n = 0;
    let mut i = start + 1;
    while i < end {
        let r = &recs[i];
        if r.kind == K_METHOD && str_eq(r.b, method) && str_eq(r.c, params) && !is_inlined(recs, i) {
            // distinct (obfuscated, arguments, original) within the class block: the
            // first non-inlined occurrence wins
            let mut dup = false;
            let mut j = start + 1;
            while j < i {
                let q = &recs[j];
                if q.kind == K_METHOD && str_eq(q.a, r.a) && str_eq(q.b, r.b) && str_eq(q.c, r.c) && !is_inlined(recs, j) {
                    dup = true;
                }
                j += 1;
            }
            if !dup {
                out[n] = Some(Exp { class: if r.has_d { r.d } else { class_original }, method: r.a, line: Some(0), file: None });
                n += 1;
            }
        }
        i += 1;
    }
    n
}

/// C04: expected answer of the method lookup: Some iff the class is known, >=1
/// entry has that obfuscated name and all of them share the original name.
pub fn expected_method<const N: usize>(recs: &[Item; N], class: &str, method: &str) -> Option<(&'static str, &'static str)> {
    let (start, class_original) = class_of(recs, class)?;
    let end = block_end(recs, start);
    let mut first: Option<&'static str> = None;
    let mut i = start + 1;
    while i < end {
        let r = &recs[i];
        if r.kind == K_METHOD && str_eq(r.b, method) {
            match first {
                None => first = Some(r.a),
                Some(f) => {
                    if !str_eq(f, r.a) {
                        return None;
                    }
                }
            }
        }
        i += 1;
    }
    first.map(|f| (class_original, f))
}
