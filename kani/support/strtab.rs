//! Model of `watto::StringTable` (writer side): same offsets, same LEB128
//! length prefixes, same de-duplication, same "empty string -> usize::MAX"
//! rule, but de-duplicates by scanning its own byte buffer instead of a
//! `HashMap<String, usize>`. `read` delegates to the real watto reader.
//! Validated natively against the real `watto::StringTable` by
//! `./check --validate-models`.

#[derive(Debug, Clone, Default)]
pub struct StringTable {
    /// (offset of the length prefix, offset of the payload, payload length)
    entries: Vec<(usize, usize, usize)>,
    bytes: Vec<u8>,
}

impl StringTable {
    pub fn new() -> Self {
        Self::default()
    }

    pub fn insert(&mut self, s: &str) -> usize {
        if s.is_empty() {
            return usize::MAX;
        }
        let sb = s.as_bytes();
        let mut i = 0;
        while i < self.entries.len() {
            let (off, start, len) = self.entries[i];
            if len == sb.len() && &self.bytes[start..start + len] == sb {
                return off;
            }
            i += 1;
        }
        let off = self.bytes.len();
        let mut v = sb.len() as u64;
        loop {
            let mut b = (v & 0x7f) as u8;
            v >>= 7;
            if v != 0 {
                b |= 0x80;
            }
            self.bytes.push(b);
            if v == 0 {
                break;
            }
        }
        let start = self.bytes.len();
        self.bytes.extend_from_slice(sb);
        self.entries.push((off, start, sb.len()));
        off
    }

    pub fn as_bytes(&self) -> &[u8] {
        &self.bytes
    }

    pub fn into_bytes(self) -> Vec<u8> {
        self.bytes
    }

    pub fn read(string_bytes: &[u8], offset: usize) -> Result<&str, watto::ReadStringError> {
        watto::StringTable::read(string_bytes, offset)
    }
}
