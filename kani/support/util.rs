//! Model of the adapter chain `mapping.iter().filter_map(Result::ok)` that both
//! builders (`create_proguard_mapper`, `ProguardCache::write`) start from.
//! tools/instrument.py rewrites `.filter_map(Result::ok)` to `.verif_ok_only()`.
//!
//! * Outside Kani (`--cfg proguard_verif`, native validation of the models) it is
//!   literally `filter_map(Result::ok)`.
//! * Under Kani it yields the `Ok` payloads of the *injected* record stream
//!   (kani/support/inject.rs) and skips the `Err` items - the same semantics -
//!   without ever materialising a `Result<ProguardRecord, ParseError>`:
//!   measured, Kani compiles reads through that niche-encoded Result into casts
//!   whose discriminant CBMC's symbolic execution cannot constant-fold, so every
//!   record kind and every string of a concrete stream became symbolic and the
//!   builders did not finish (and std's FilterMap goes through
//!   find_map/try_fold/ControlFlow: 500k symex steps for a 2-record stream).

#[cfg(not(kani))]
pub trait OkOnlyExt: Iterator + Sized {
    fn verif_ok_only<T, E>(self) -> core::iter::FilterMap<Self, fn(Result<T, E>) -> Option<T>>
    where
        Self: Iterator<Item = Result<T, E>>,
    {
        self.filter_map(Result::ok)
    }
}
#[cfg(not(kani))]
impl<I: Iterator> OkOnlyExt for I {}

#[cfg(kani)]
pub trait OkOnlyExt {
    type Out;
    fn verif_ok_only(self) -> Self::Out;
}

#[cfg(kani)]
impl<'s> OkOnlyExt for crate::mapping::ProguardRecordIter<'s> {
    type Out = super::inject::InjectedOk<'s>;
    fn verif_ok_only(self) -> Self::Out {
        super::inject::InjectedOk::new(crate::mapping::verif_harness::remaining(&self))
    }
}
