//! Small models of std adapters whose generic machinery defeats CBMC's
//! constant propagation (measured: `filter_map(Result::ok)` through
//! `find_map`/`try_fold`/`ControlFlow` costs 500k symex steps on a 2-record
//! concrete stream; this adapter costs 12k).

/// Model of `Iterator::filter_map(Result::ok)`: yields the `Ok` payloads, skips `Err`s.
pub struct OkOnly<I> {
    iter: I,
}

impl<T, E, I: Iterator<Item = Result<T, E>>> Iterator for OkOnly<I> {
    type Item = T;
    fn next(&mut self) -> Option<T> {
        loop {
            match self.iter.next() {
                None => return None,
                Some(Ok(v)) => return Some(v),
                Some(Err(_)) => {}
            }
        }
    }
}

pub trait OkOnlyExt: Iterator + Sized {
    fn verif_ok_only(self) -> OkOnly<Self> {
        OkOnly { iter: self }
    }
}

impl<I: Iterator> OkOnlyExt for I {}
