#!/usr/bin/env python3
"""Instrument a scratch copy of /repo for the verification build.

Nothing is ever changed in /repo itself: the driver copies /repo's current
working tree to a scratch directory and this script applies, mechanically and
add-only, the same edits a set of cfg-guarded hook commits would:

  1. `use std::collections::X;` in src/mapper.rs and src/cache/raw.rs is put
     under `#[cfg(not(any(kani, proguard_verif)))]` and a twin importing the
     container models from `crate::verif_support::collections` is added under
     `#[cfg(any(kani, proguard_verif))]`.
  2. `use watto::{.., StringTable};` in src/cache/raw.rs likewise (model of
     the string table for the *writer*; the reader keeps the real
     `watto::StringTable::read`).
  3. every src file that has a harness module in <verif>/kani/harness gets
     `#[cfg(kani)] #[path = ".."] mod verif_harness;` appended (a child module
     sees its parent's private items).
  4. src/lib.rs gets the support module; Cargo.toml gets the check-cfg lint
     table so that the unknown cfg names do not warn.

With neither `kani` nor `proguard_verif` set the instrumented crate is the
same program as the original (`./check --validate-models` builds it both ways
and runs the repository's own test-suite).

Exit status 0 on success; 3 if an expected anchor was not found (the driver
reports the dependent harnesses as inconclusive, never as pass or violation).
"""
import os
import re
import sys

VERIF = os.environ.get("VERIF_ROOT", "/verif")
KROOT = os.environ.get("VERIF_KANI_ROOT", os.path.join(VERIF, "kani"))

CFG_ON = "#[cfg(any(kani, proguard_verif))]"
CFG_OFF = "#[cfg(not(any(kani, proguard_verif)))]"

HARNESS_MODS = {
    "src/mapping.rs": "mapping.rs",
    "src/mapper.rs": "mapper.rs",
    "src/java.rs": "java.rs",
    "src/stacktrace.rs": "stacktrace.rs",
    "src/cache/mod.rs": "cache_mod.rs",
    "src/cache/raw.rs": "cache_raw.rs",
}


def swap_collections(text):
    out = []
    n = 0
    for line in text.split("\n"):
        m = re.match(r"^(\s*)use std::collections::(.*);\s*$", line)
        if m and "verif_support" not in line:
            ind, what = m.group(1), m.group(2)
            out.append(f"{ind}{CFG_OFF}")
            out.append(line)
            out.append(f"{ind}{CFG_ON}")
            out.append(f"{ind}use crate::verif_support::collections::{what};")
            n += 1
            continue
        m = re.match(r"^(\s*)use watto::\{([^}]*)\};\s*$", line)
        if m and "StringTable" in m.group(2):
            ind = m.group(1)
            items = [x.strip() for x in m.group(2).split(",") if x.strip()]
            others = [x for x in items if x != "StringTable"]
            out.append(f"{ind}{CFG_OFF}")
            out.append(line)
            if others:
                out.append(f"{ind}{CFG_ON}")
                out.append(f"{ind}use watto::{{{', '.join(others)}}};")
            out.append(f"{ind}{CFG_ON}")
            out.append(f"{ind}use crate::verif_support::strtab::StringTable;")
            n += 1
            continue
        out.append(line)
    return "\n".join(out), n


def swap_ok_filter(text):
    """`.filter_map(Result::ok)` -> `.verif_ok_only()`.

    In the verification build that is the model adapter of kani/support/util.rs:
    std's FilterMap goes through find_map/try_fold/ControlFlow, which defeats
    CBMC's constant propagation (measured: 500k symex steps for a 2-record
    concrete stream vs 12k with the model); same semantics: yield the Ok
    payloads, skip the Errs. With the guard off `verif_ok_only` is defined (in
    lib.rs, below) as literally `filter_map(Result::ok)`."""
    n = text.count(".filter_map(Result::ok)")
    if n:
        text = text.replace(".filter_map(Result::ok)", ".verif_ok_only()")
        text = "use crate::verif_support::util::OkOnlyExt;\n" + text
    return text, n


def stop_before_tests(text):
    """The `#[cfg(test)] mod tests` block stays untouched (it may import std
    containers for its own use)."""
    idx = text.find("#[cfg(test)]\nmod tests")
    if idx < 0:
        return text, ""
    return text[:idx], text[idx:]


def main():
    root = sys.argv[1]
    missing = []
    for rel in ("src/mapper.rs", "src/cache/raw.rs"):
        p = os.path.join(root, rel)
        text = open(p).read()
        head, tail = stop_before_tests(text)
        head, n = swap_collections(head)
        if n == 0:
            missing.append(f"{rel}: no `use std::collections::` line found")
        head, _ = swap_ok_filter(head)
        open(p, "w").write(head + tail)

    # ProguardRecord gets an explicit tag (layout only, no change of meaning) in the
    # verification build. Measured with Kani 0.68/CBMC 6.11: with the default niche
    # layout the discriminant of a record lives in the tag of the nested
    # Option<usize> of its line mapping and is read through a cast that CBMC's symex
    # never constant-folds, so the builders explore every `match record` arm for
    # every record of a concrete stream; with `repr(C, u8)` the tag is a plain field.
    # (`repr(u8)` alone made the fields of *every* variant non-foldable.)
    p = os.path.join(root, "src/mapping.rs")
    text = open(p).read()
    m = re.search(r"^pub enum ProguardRecord<", text, re.M)
    if m:
        text = text[:m.start()] + "#[cfg_attr(kani, repr(C, u8))]\n" + text[m.start():]
        open(p, "w").write(text)
    else:
        print("INSTRUMENT-NOTE: enum ProguardRecord not found; builder harnesses will be slow")

    # any other use of std containers in non-test code is reported
    other = []
    for dirpath, _, files in os.walk(os.path.join(root, "src")):
        for f in files:
            if not f.endswith(".rs"):
                continue
            p = os.path.join(dirpath, f)
            head, _ = stop_before_tests(open(p).read())
            for i, line in enumerate(head.split("\n"), 1):
                if "std::collections::" in line and "verif_support" not in line:
                    prev = head.split("\n")[i - 2] if i >= 2 else ""
                    if CFG_OFF in prev:
                        continue
                    other.append(f"{os.path.relpath(p, root)}:{i}: {line.strip()}")

    for rel, hm in HARNESS_MODS.items():
        hp = os.path.join(KROOT, "harness", hm)
        if not os.path.exists(hp):
            continue
        p = os.path.join(root, rel)
        if not os.path.exists(p):
            missing.append(f"{rel}: file not found")
            continue
        with open(p, "a") as fh:
            fh.write(f'\n#[cfg(kani)]\n#[path = "{hp}"]\npub(crate) mod verif_harness;\n')

    lib = os.path.join(root, "src/lib.rs")
    with open(lib, "a") as fh:
        fh.write(
            f'\n{CFG_ON}\n#[path = "{KROOT}/support/mod.rs"]\npub(crate) mod verif_support;\n'
        )
        # with the guard off: `.verif_ok_only()` is literally `filter_map(Result::ok)`
        fh.write(
            f"\n{CFG_OFF}\npub(crate) mod verif_support {{\n    pub mod util {{\n"
            "        pub trait OkOnlyExt: Iterator + Sized {\n"
            "            fn verif_ok_only<T, E>(self) -> core::iter::FilterMap<Self, fn(Result<T, E>) -> Option<T>>\n"
            "            where\n                Self: Iterator<Item = Result<T, E>>,\n            {\n"
            "                self.filter_map(Result::ok)\n            }\n        }\n"
            "        impl<I: Iterator> OkOnlyExt for I {}\n    }\n}\n"
        )
        pinned = os.path.join(KROOT, "pinned", "mod.rs")
        if os.path.exists(pinned):
            fh.write(f'\n#[cfg(kani)]\n#[path = "{pinned}"]\npub(crate) mod verif_pinned;\n')

    cargo = os.path.join(root, "Cargo.toml")
    ctext = open(cargo).read()
    if "[lints.rust]" not in ctext:
        ctext += (
            "\n[lints.rust]\nunexpected_cfgs = { level = \"allow\", "
            "check-cfg = ['cfg(kani)', 'cfg(proguard_verif)'] }\n"
        )
    open(cargo, "w").write(ctext)

    for m in missing:
        print("INSTRUMENT-MISSING:", m)
    for o in other:
        print("INSTRUMENT-OTHER-STD-COLLECTIONS:", o)
    return 3 if missing else 0


if __name__ == "__main__":
    sys.exit(main())
