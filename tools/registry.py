"""Registry of harnesses per property: what each encodes, its bound, tier,
Kani mode and time limit. The driver (`/verif/check`) reads nothing else."""
import os

VERIF = os.path.dirname(os.path.dirname(os.path.abspath(__file__)))
MEM_GB = 24  # RLIMIT_AS per process (cbmc); an OOM is reported as inconclusive

MODS = {
    "cache_raw": ("cache::raw::verif_harness", "cache_raw.rs"),
    "cache_mod": ("cache::verif_harness", "cache_mod.rs"),
    "mapper": ("mapper::verif_harness", "mapper.rs"),
    "mapping": ("mapping::verif_harness", "mapping.rs"),
    "java": ("java::verif_harness", "java.rs"),
    "stacktrace": ("stacktrace::verif_harness", "stacktrace.rs"),
}

STD_STUBS = ["model: std HashMap/HashSet/BTreeMap -> Vec-backed models (kani/support/collections.rs)"]

HARNESSES = []


def H(prop, mod, name, tier="quick", mode="full", timeout=420, **kw):
    path, f = MODS[mod]
    d = dict(prop=prop, name=name, path=f"{path}::{name}", file=os.path.join(VERIF, "kani", "harness", f),
             tier=tier, mode=mode, timeout=timeout)
    d.update(kw)
    HARNESSES.append(d)


def harnesses_for(prop, tier):
    out = []
    for h in HARNESSES:
        if h["prop"] != prop:
            continue
        if tier == "quick" and h["tier"] != "quick":
            continue
        out.append(dict(h))
    return out


PROPS = {}

# --------------------------------------------------------------------------- C11
PROPS["C11"] = dict(
    claim=("ProguardCache::parse returns, for every buffer up to the bound and every content, exactly the verdict "
           "of a reference reading of the documented layout (error kind with payload, or the section split); and "
           "no strict prefix of an exactly-sized accepted buffer is accepted"),
    outside="buffers longer than 160 bytes (quick: 96); queries on accepted prefixes (vacuous: none is accepted)",
    assumptions=["buffer is 8-byte aligned (what the allocator gives Vec<u8>/mmap; parse rejects misaligned input with InvalidHeader)"],
)
_c11 = dict(functions=["ProguardCache::parse", "watto::Pod::ref_from_prefix", "watto::Pod::slice_from_prefix", "watto::align_to"],
            stubs=[])
H("C11", "cache_raw", "c11_error_kinds_96", what="parse verdict == reference verdict, all buffers <=96 bytes",
  vars="96 buffer bytes, length", bound="len<=96", **_c11)
H("C11", "cache_raw", "c11_prefix_96", what="no strict prefix of an exact-length valid image parses",
  vars="96 buffer bytes, length, prefix length", bound="len<=96", **_c11)
H("C11", "cache_raw", "c11_error_kinds_160", tier="thorough", what="as above, <=160 bytes",
  vars="160 buffer bytes, length", bound="len<=160", **_c11)
H("C11", "cache_raw", "c11_prefix_160", tier="thorough", what="as above, <=160 bytes",
  vars="160 buffer bytes, length, prefix length", bound="len<=160", **_c11)

# --------------------------------------------------------------------------- C01
PROPS["C01"] = dict(
    claim=("both iterate_with_lines kernels (mapper and cache) yield exactly one frame per applying entry, in order, "
           "with the class, method, ProGuard original-line rule and sourceFile/synthetic/foreign-class file rule of the reference model"),
    outside="more than 3 entries per (class, method); names other than the fixed shapes; the builders' record->entry encoding (see builder harnesses); text noise / line endings (composition with C06)",
    assumptions=["builder representation invariant: endline==0 => startline==0, original_startline==0, original_endline==None; endline>0 => startline>0",
                 "mapping line numbers < 2^32-1 (property domain); frame line any usize"],
)
_k = dict(functions=["mapper::iterate_with_lines", "mapper::extract_class_name"], stubs=[], mode="full")
for _sh in ["own_nofile", "own_file", "own_synth", "foreign_nofile", "foreign_file", "foreign_synth"]:
    H("C01", "mapper", "c01_mapper_kernel_1_" + _sh, what="mapper kernel == spec, 1 entry of shape " + _sh + ", all integers",
      vars="4 numbers + original_endline presence, frame line, frame file presence", bound="K=1", **_k)
_ks = dict(functions=["mapper::iterate_with_lines"], stubs=["mapper::extract_class_name -> constant (infeasible in these shapes; real one checked by the K=1 harnesses)"], mode="full")
H("C01", "mapper", "c01_mapper_step_2_a", what="inductive step: first applying entry of 2 is returned, iterator positioned after it (shapes own/nofile, foreign/nofile)", vars="numbers of 2 entries, frame line, frame file presence", bound="K=2 per step; induction over suffixes", **_ks)
H("C01", "mapper", "c01_mapper_step_2_b", what="same, shapes foreign/file + own/nofile", vars="as above", bound="K=2", **_ks)
H("C01", "mapper", "c01_mapper_step_3", what="same, 3 entries", vars="numbers of 3 entries, frame line", bound="K=3", **_ks)

_kc = dict(functions=["cache::iterate_with_lines", "cache::extract_class_name", "ProguardCache::read_string", "watto::StringTable::read"], stubs=[], mode="full")
for _sh in ["own_nofile", "own_file", "own_synth", "foreign_nofile", "foreign_file", "foreign_synth"]:
    H("C01", "cache_mod", "c01_cache_kernel_1_" + _sh, what="cache kernel == spec, 1 entry of shape " + _sh + ", all u32 fields under the writer invariant",
      vars="4 numbers, frame line (any usize), frame file presence", bound="K=1", **_kc)
_kcs = dict(functions=["cache::iterate_with_lines", "ProguardCache::read_string"], stubs=["cache::extract_class_name -> constant (infeasible in these shapes)"], mode="full")
H("C01", "cache_mod", "c01_cache_step_2_a", what="cache inductive step, 2 entries", vars="numbers of 2 entries, frame line", bound="K=2", **_kcs)
H("C01", "cache_mod", "c01_cache_step_2_b", what="cache inductive step, 2 entries, other shapes", vars="as above", bound="K=2", **_kcs)
H("C01", "cache_mod", "c01_cache_step_3", what="cache inductive step, 3 entries", vars="numbers of 3 entries, frame line", bound="K=3", **_kcs)

# --------------------------------------------------------------------------- C02
PROPS["C02"] = dict(
    claim=("kernel differential: for one abstract entry of the representable domain, encoded for the mapper (Option) and for the cache "
           "(u32::MAX sentinel, string offsets), the two real frame kernels give the same frame for every frame line, with/without frame file, by line and by parameters"),
    outside=("that the cache *writer* produces this encoding and the right section offsets (write/create_proguard_mapper pipelines did not terminate under CBMC, "
             "DESIGN.md section 2); text trace APIs (C07); class/method lookup equivalence is C04, signatures C16"),
    assumptions=["documented encoding: absent original_endline/class/file = u32::MAX; 'no usable range' = (0,0,0,MAX) resp. (0,0,0,None); numbers < 2^32-1"],
)
_c02 = dict(functions=["mapper::iterate_with_lines", "mapper::iterate_without_lines", "cache::iterate_with_lines", "cache::iterate_without_lines", "both extract_class_name", "ProguardCache::read_string"], stubs=[])
for _sh in ["own_nofile", "own_file", "own_synth", "foreign_nofile", "foreign_file", "foreign_synth"]:
    H("C02", "cache_mod", "c02_kernel_diff_" + _sh, what="mapper kernel == cache kernel, shape " + _sh, vars="s,e,os,oe,oe-presence (u32), frame line (usize), frame file presence", bound="1 entry", **_c02)
H("C02", "cache_mod", "c02_kernel_diff_params_own", what="by-parameters kernels agree (own class, file set)", vars="all numbers", bound="1 entry", **_c02)
H("C02", "cache_mod", "c02_kernel_diff_params_foreign", what="by-parameters kernels agree (foreign class)", vars="all numbers", bound="1 entry", **_c02)

# --------------------------------------------------------------------------- C03
PROPS["C03"] = dict(
    claim="iterate_without_lines (mapper, cache) yields one frame per by-params entry in order with class rule, line 0, no file",
    outside="which entries the builders put into the by-params index (inline filter, de-duplication, per-class reset, offsets): see builder harnesses",
    assumptions=[],
)
H("C03", "cache_mod", "c03_cache_without_lines_kernel", what="cache iterate_without_lines == spec, 2 entries", vars="entry numbers", bound="K=2",
  functions=["cache::iterate_without_lines", "ProguardCache::read_string"], stubs=[])
H("C03", "mapper", "c03_mapper_without_lines_kernel", what="mapper iterate_without_lines == spec, 2 entries", vars="entry fields", bound="K=2",
  functions=["mapper::iterate_without_lines"], stubs=[])

# --------------------------------------------------------------------------- C04
PROPS["C04"] = dict(
    claim="remap_class is exact; remap_method answers iff class known, >=1 entry, all entries agree; when it answers every line-remapped frame carries that method",
    outside="more than 3 entries / 3 classes; names longer than 2 bytes; 'last class line wins' (builder)",
    assumptions=[],
)
_c04m = dict(functions=["ProguardMapper::remap_method", "ProguardMapper::remap_class", "ProguardMapper::remap_frame", "mapper::iterate_with_lines"],
             stubs=STD_STUBS + ["mapper::extract_class_name -> constant (no entry has a file)"], bound="<=3 entries, 1 class, 1-byte names",
             vars="all line numbers of every entry, frame line")
for _n in ["f", "ff", "fg", "fff", "ffg", "gff"]:
    H("C04", "mapper", "c04_mapper_" + _n, what="mapper: remap_method iff all entries agree (original names " + _n + "), frames agree, exact class/method lookup, unknown names yield nothing", **_c04m)

_c04c = dict(functions=["ProguardCache::remap_method", "ProguardCache::get_class", "ProguardCache::get_class_members", "ProguardCache::find_range_by_binary_search", "ProguardCache::remap_frame", "cache::iterate_with_lines"],
             stubs=["cache::extract_class_name -> constant (no entry has a file)"], bound="<=3 entries + 1 neighbour method, 1 class", vars="all line numbers (writer invariant), frame line")
for _n in ["f", "ff", "fg", "fff", "ffg", "gff"]:
    H("C04", "cache_mod", "c04_cache_" + _n, what="cache: remap_method iff all entries agree (original names " + _n + "), frames agree and do not leak into the neighbour method", **_c04c)
for _q in (1, 2):
    H("C04", "cache_mod", "c04_cache_class_lookup_2classes_q%d" % _q, what="cache class lookup exact for every %d-byte query, classes a, a$" % _q, vars="%d query bytes" % _q,
      bound="2 classes", functions=["ProguardCache::get_class", "ProguardCache::remap_class", "ProguardCache::remap_throwable"], stubs=[])
for _q, _t in [(1, "thorough"), (2, "thorough"), (3, "thorough")]:
    H("C04", "cache_mod", "c04_cache_class_lookup_q%d" % _q, tier=_t, timeout=900, what="cache class lookup (binary search) is exact for every %d-byte query over {a,b,$,.,A,0,m} against classes a, a$, a., b" % _q,
      vars="%d query bytes" % _q, bound="4 classes, %d-byte queries" % _q, functions=["ProguardCache::get_class", "ProguardCache::remap_class", "ProguardCache::remap_throwable"], stubs=[])
H("C04", "cache_mod", "c04_cache_find_range", what="find_range_by_binary_search returns exactly the maximal Equal run for every sorted comparison table", vars="slice length <=5, run bounds lo<=hi", bound="<=5 members",
  functions=["ProguardCache::find_range_by_binary_search"], stubs=[])

# --------------------------------------------------------------------------- C08
PROPS["C08"] = dict(
    claim="remap_stacktrace_typed keeps the cause-chain depth, every throwable (remapped or unchanged) and every frame (remapped or unchanged)",
    outside="cause depth > 2; frames that expand to more than one remapped frame inside a typed trace (measured: Vec::extend with a symbolic number of frames does not finish in 300 s); agreement with the text API (C07 is not applicable)",
    assumptions=[],
)
_c08m = dict(functions=["ProguardMapper::remap_stacktrace_typed", "ProguardMapper::remap_throwable", "ProguardMapper::remap_frame", "mapper::iterate_with_lines"],
             stubs=STD_STUBS + ["mapper::extract_class_name -> constant (no entry has a file)"])
for _n in ["none", "known", "unknown", "known_unknown_known", "unknown_known_unknown", "none_unknown"]:
    H("C08", "mapper", "c08_mapper_chain_" + _n, what="mapper typed remap keeps cause-chain depth and every throwable; (exception, cause, cause-of-cause) = " + _n,
      vars="message presence", bound="cause depth<=2, no frames", **_c08m)
for _n in ["unknown_r0", "unknown_r2"]:
    H("C08", "mapper", "c08_mapper_frames_" + _n, what="mapper typed remap keeps 3 unresolvable frames unchanged (unknown class / unknown method)", vars="frame line within a regime", bound="3 frames", **_c08m)
H("C08", "mapper", "c08_mapper_one_frame", what="one frame, one entry: replaced by its remapped frame or kept unchanged", vars="frame line (any usize)", bound="1 frame, 1 entry", **_c08m)
H("C08", "mapper", "c08_mapper_two_frames", what="unresolvable frame followed by a resolvable one", vars="frame line (any usize)", bound="2 frames, 1 entry", **_c08m)

_c08c = dict(functions=["ProguardCache::remap_stacktrace_typed", "ProguardCache::remap_throwable", "ProguardCache::remap_frame", "cache::iterate_with_lines"],
             stubs=["cache::extract_class_name -> constant (no entry has a file)"])
for _n in ["none", "known", "unknown", "known_unknown_known", "unknown_known_unknown"]:
    H("C08", "cache_mod", "c08_cache_chain_" + _n, what="cache typed remap keeps cause-chain depth and every throwable; " + _n, vars="message presence", bound="cause depth<=2, no frames", **_c08c)
H("C08", "cache_mod", "c08_cache_one_frame", what="cache: one frame, one entry: replaced or kept", vars="frame line (any usize)", bound="1 frame", **_c08c)
H("C08", "cache_mod", "c08_cache_two_frames", what="cache: unresolvable frame followed by a resolvable one", vars="frame line (any usize)", bound="2 frames", **_c08c)

# --------------------------------------------------------------------------- C13
PROPS["C13"] = dict(
    claim="compositional panic/overflow freedom: mapper kernel with unrestricted 64-bit numbers, parser step, descriptor tokenizer, frame/throwable parsers",
    outside="whole build-write-parse-query pipelines; text trace remapping (C07)",
    assumptions=["builder representation invariant (see C01)"],
)
H("C13", "mapper", "c13_mapper_kernel_nopanic", what="mapper iterate_with_lines never panics/overflows, unrestricted numbers", vars="all numbers 64-bit, frame line", bound="K=2",
  functions=["mapper::iterate_with_lines"], stubs=[])

# --------------------------------------------------------------------------- not applicable / notes
NOTES = ("All checks are driven by /verif/check; see DESIGN.md. Exit 2 = inconclusive (timeout, OOM, unwinding bound, "
         "vacuity or build failure of the verification build) and is never reported as success or as a violation.")

NOT_APPLICABLE = {
    "C07": "text-trace remapping runs str::lines/trim/split_once/parse/fmt over text whose shape is the quantified variable; measured cost of those std routines under CBMC (10-40 s per call on 4 symbolic bytes) puts even one frame line (11+ bytes) out of reach, and a template-only harness would decide nothing about arbitrary line shapes (DESIGN.md section 5, C07)",
    "C14": "quantifies over processes, hash seeds, threads and allocation addresses; Kani is single-threaded, CBMC's address model is deterministic and std HashMap seeding is not executable under it (DESIGN.md section 5, C14)",
    "C20": "Send/Sync are decided by rustc's trait solver, not by a SAT/SMT query, and Kani does not model threads (DESIGN.md section 5, C20)",
}
for _p in [f"C{i:02d}" for i in range(1, 21)]:
    if _p not in PROPS and _p not in NOT_APPLICABLE:
        NOT_APPLICABLE[_p] = "check not built yet (work in progress; see DESIGN.md for the planned harnesses)"
