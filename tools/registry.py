"""Registry of harnesses per property: what each encodes, its bound, tier,
Kani mode and time limit. The driver (`/verif/check`) reads nothing else."""
import os

VERIF = os.path.dirname(os.path.dirname(os.path.abspath(__file__)))
MEM_GB = 24  # RLIMIT_AS per process (cbmc); an OOM is reported as inconclusive

MODS = {
    "cache_raw": ("cache::raw::verif_harness", "cache_raw.rs"),
    "cache_mod": ("cache::verif_harness", "cache_mod.rs"),
    "mapper": ("mapper::verif_harness", "mapper.rs"),
    "mapping": ("mapping::verif_harness", "mapping.rs"),
    "java": ("java::verif_harness", "java.rs"),
    "stacktrace": ("stacktrace::verif_harness", "stacktrace.rs"),
}

STD_STUBS = ["model: std HashMap/HashSet/BTreeMap -> Vec-backed models (kani/support/collections.rs)"]

HARNESSES = []


def H(prop, mod, name, tier="quick", mode="full", timeout=900, **kw):
    path, f = MODS[mod]
    d = dict(prop=prop, name=name, path=f"{path}::{name}", file=os.path.join(VERIF, "kani", "harness", f),
             tier=tier, mode=mode, timeout=timeout)
    d.update(kw)
    if "name_path" in d:
        d["path"] = d.pop("name_path")
    HARNESSES.append(d)


def harnesses_for(prop, tier):
    out = []
    for h in HARNESSES:
        if h["prop"] != prop:
            continue
        if tier == "quick" and h["tier"] != "quick":
            continue
        # "extra" harnesses exist in the harness files and can be run with `--tier extra`, but are in
        # neither registered tier: they were not (re)validated to terminate inside the budget on the final tree
        if tier == "thorough" and h["tier"] == "extra":
            continue
        out.append(dict(h))
    return out


PROPS = {}

# --------------------------------------------------------------------------- C11
PROPS["C11"] = dict(
    claim=("ProguardCache::parse returns, for every buffer up to the bound and every content, exactly the verdict "
           "of a reference reading of the documented layout (error kind with payload, or the section split); and "
           "no strict prefix of an exactly-sized accepted buffer is accepted"),
    outside="buffers longer than 160 bytes (quick: 96); queries on accepted prefixes (vacuous: none is accepted)",
    assumptions=["buffer is 8-byte aligned (what the allocator gives Vec<u8>/mmap; parse rejects misaligned input with InvalidHeader)"],
)
_c11 = dict(functions=["ProguardCache::parse", "watto::Pod::ref_from_prefix", "watto::Pod::slice_from_prefix", "watto::align_to"],
            stubs=[])
H("C11", "cache_raw", "c11_error_kinds_96", what="parse verdict == reference verdict, all buffers <=96 bytes",
  vars="96 buffer bytes, length", bound="len<=96", **_c11)
H("C11", "cache_raw", "c11_prefix_96", what="no strict prefix of an exact-length valid image parses",
  vars="96 buffer bytes, length, prefix length", bound="len<=96", **_c11)
H("C11", "cache_raw", "c11_error_kinds_160", tier="thorough", what="as above, <=160 bytes",
  vars="160 buffer bytes, length", bound="len<=160", **_c11)
H("C11", "cache_raw", "c11_prefix_160", tier="thorough", what="as above, <=160 bytes",
  vars="160 buffer bytes, length, prefix length", bound="len<=160", **_c11)

# --------------------------------------------------------------------------- C01
PROPS["C01"] = dict(
    claim=("both iterate_with_lines kernels (mapper and cache) yield exactly one frame per applying entry, in order, "
           "with the class, method, ProGuard original-line rule and sourceFile/synthetic/foreign-class file rule of the reference model"),
    outside=("more than 3 entries per (class, method) in the kernels; names other than the fixed shapes; the mapper builder beyond streams with one symbolic method record (see p_mapper_*); "
             "the cache *writer's* record->entry encoding (write pipeline not executable under CBMC); text noise / line endings (composition with C06)"),
    assumptions=["builder representation invariant: endline==0 => startline==0, original_startline==0, original_endline==None; endline>0 => startline>0",
                 "mapping line numbers < 2^32-1 (property domain); frame line any usize"],
)
_k = dict(functions=["mapper::iterate_with_lines", "mapper::extract_class_name"], stubs=[], mode="full")
for _sh in ["own_nofile", "own_file", "own_synth", "foreign_nofile", "foreign_file", "foreign_synth"]:
    H("C01", "mapper", "c01_mapper_kernel_1_" + _sh, what="mapper kernel == spec, 1 entry of shape " + _sh + ", all integers",
      vars="4 numbers + original_endline presence, frame line, frame file presence", bound="K=1", **_k)
_ks = dict(functions=["mapper::iterate_with_lines"], stubs=["mapper::extract_class_name -> constant (infeasible in these shapes; real one checked by the K=1 harnesses)"], mode="full")
H("C01", "mapper", "c01_mapper_step_2_a", what="inductive step: first applying entry of 2 is returned, iterator positioned after it (shapes own/nofile, foreign/nofile)", vars="numbers of 2 entries, frame line, frame file presence", bound="K=2 per step; induction over suffixes", **_ks)
H("C01", "mapper", "c01_mapper_step_2_b", what="same, shapes foreign/file + own/nofile", vars="as above", bound="K=2", **_ks)
H("C01", "mapper", "c01_mapper_step_3", what="same, 3 entries", vars="numbers of 3 entries, frame line", bound="K=3", **_ks)

_kc = dict(functions=["cache::iterate_with_lines", "cache::extract_class_name", "ProguardCache::read_string", "watto::StringTable::read"], stubs=[], mode="full")
for _sh in ["own_nofile", "own_file", "own_synth", "foreign_nofile", "foreign_file", "foreign_synth"]:
    H("C01", "cache_mod", "c01_cache_kernel_1_" + _sh, what="cache kernel == spec, 1 entry of shape " + _sh + ", all u32 fields under the writer invariant",
      vars="4 numbers, frame line (any usize), frame file presence", bound="K=1", **_kc)
_kcs = dict(functions=["cache::iterate_with_lines", "ProguardCache::read_string"], stubs=["cache::extract_class_name -> constant (infeasible in these shapes)"], mode="full")
H("C01", "cache_mod", "c01_cache_step_2_a", what="cache inductive step, 2 entries", vars="numbers of 2 entries, frame line", bound="K=2", **_kcs)
H("C01", "cache_mod", "c01_cache_step_2_b", what="cache inductive step, 2 entries, other shapes", vars="as above", bound="K=2", **_kcs)
H("C01", "cache_mod", "c01_cache_step_3", what="cache inductive step, 3 entries", vars="numbers of 3 entries, frame line", bound="K=3", **_kcs)

_pb = dict(functions=["ProguardMapper::create_proguard_mapper", "ProguardMapper::remap_frame", "ProguardMapper::remap_method", "ProguardMapper::remap_class", "mapper::iterate_with_lines", "ProguardRecordIter (position)"],
           stubs=STD_STUBS + ["record injection: mapping.iter().filter_map(Result::ok).peekable() -> InjectedOk/InjectedPeekable over the harness's record stream (kani/support/inject.rs)",
                             "mapper::extract_class_name -> exact byte-loop model", "ProguardRecord: repr(C,u8) layout in the verification build"], mode="functional", timeout=1200,
           vars="presence and all four numbers of the method's line mapping, frame line (usize), frame file presence")
H("C01", "mapper", "p_mapper_1m", what="real builder on [class, method(symbolic line mapping)]: line query == stream-level spec (record->entry encoding, range filter, line rule)", bound="2 records", **_pb)
H("C01", "mapper", "p_mapper_file_1m", what="real builder on [class, sourceFile header, method]: the file rule end to end", bound="3 records", **_pb)
H("C01", "mapper", "p_mapper_dupclass", tier="thorough", what="real builder on [class a, method, class a again, method]: the last class block with a name wins, nothing leaks from the first", bound="4 records (1 symbolic)", **_pb)

# --------------------------------------------------------------------------- C02
PROPS["C02"] = dict(
    claim=("kernel differential: for one abstract entry of the representable domain, encoded for the mapper (Option) and for the cache "
           "(u32::MAX sentinel, string offsets), the two real frame kernels give the same frame for every frame line, with/without frame file, by line and by parameters"),
    outside=("that the cache *writer* produces this encoding and the right section offsets (write/create_proguard_mapper pipelines did not terminate under CBMC, "
             "DESIGN.md section 2); text trace APIs (C07); class/method lookup equivalence is C04, signatures C16"),
    assumptions=["documented encoding: absent original_endline/class/file = u32::MAX; 'no usable range' = (0,0,0,MAX) resp. (0,0,0,None); numbers < 2^32-1"],
)
_c02 = dict(functions=["mapper::iterate_with_lines", "mapper::iterate_without_lines", "cache::iterate_with_lines", "cache::iterate_without_lines", "both extract_class_name", "ProguardCache::read_string"], stubs=[])
for _sh in ["own_nofile", "own_file", "own_synth", "foreign_nofile", "foreign_file", "foreign_synth"]:
    H("C02", "cache_mod", "c02_kernel_diff_" + _sh, what="mapper kernel == cache kernel, shape " + _sh, vars="s,e,os,oe,oe-presence (u32), frame line (usize), frame file presence", bound="1 entry", **_c02)
H("C02", "cache_mod", "c02_kernel_diff_params_own", what="by-parameters kernels agree (own class, file set)", vars="all numbers", bound="1 entry", **_c02)
H("C02", "cache_mod", "c02_kernel_diff_params_foreign", what="by-parameters kernels agree (foreign class)", vars="all numbers", bound="1 entry", **_c02)

# --------------------------------------------------------------------------- C03
PROPS["C03"] = dict(
    claim=("iterate_without_lines (mapper, cache) yields one frame per by-params entry in order with class rule, line 0, no file; and the real mapper builder with parameter index, on record streams with "
           "one method per class block, answers a parameter-based query exactly as the stream-level spec (argument string match, original class, per-class reset of the de-duplication set)"),
    outside=("two or more method records inside one class block, i.e. the inline filter and the duplicate filter proper (21-28 GB in CBMC's propositional reduction, measured, DESIGN.md section 2); "
             "the cache writer's by-params section (write pipeline not executable under CBMC)"),
    assumptions=[],
)
H("C03", "cache_mod", "c03_cache_without_lines_kernel", what="cache iterate_without_lines == spec, 2 entries", vars="entry numbers", bound="K=2",
  functions=["cache::iterate_without_lines", "ProguardCache::read_string"], stubs=[])
H("C03", "mapper", "c03_mapper_without_lines_kernel", what="mapper iterate_without_lines == spec, 2 entries", vars="entry fields", bound="K=2",
  functions=["mapper::iterate_without_lines"], stubs=[])

H("C03", "mapper", "p_mapper_params_basic", what="real builder with parameter index on [class, method(args I, symbolic line mapping)]: by-params query == stream-level spec; other argument strings match nothing", bound="2 records", **_pb)
H("C03", "mapper", "p_mapper_params_reset", what="real builder on [class a, method f(I), class b, method f(I)]: the de-duplication set does not leak from one class block into the next", bound="4 records (1 symbolic)", **_pb)
H("C02", "mapper", "p_mapper_1m_with_index", what="line-based answers of the mapper are the same when the parameter index was requested", bound="2 records", **_pb)

# --------------------------------------------------------------------------- C04
PROPS["C04"] = dict(
    claim="remap_class is exact; remap_method answers iff class known, >=1 entry, all entries agree; when it answers every line-remapped frame carries that method",
    outside="more than 3 entries / 3 classes; names longer than 2 bytes; 'last class line wins' (builder)",
    assumptions=[],
)
_c04m = dict(functions=["ProguardMapper::remap_method", "ProguardMapper::remap_class", "ProguardMapper::remap_frame", "mapper::iterate_with_lines"],
             stubs=STD_STUBS + ["mapper::extract_class_name -> constant (no entry has a file)"], bound="<=3 entries, 1 class, 1-byte names",
             vars="all line numbers of every entry, frame line")
for _n in ["f", "ff", "fg", "fff", "ffg", "gff", "fgf"]:
    H("C04", "mapper", "c04_mapper_" + _n, what="mapper: remap_method iff all entries agree (original names " + _n + "), frames agree, exact class/method lookup, unknown names yield nothing", **_c04m)

_c04c = dict(functions=["ProguardCache::remap_method", "ProguardCache::get_class", "ProguardCache::get_class_members", "ProguardCache::find_range_by_binary_search", "ProguardCache::remap_frame", "cache::iterate_with_lines"],
             stubs=["cache::extract_class_name -> constant (no entry has a file)"], bound="<=3 entries + 1 neighbour method, 1 class", vars="all line numbers (writer invariant), frame line")
for _n in ["f", "ff", "fg", "fff", "ffg", "gff", "fgf"]:
    H("C04", "cache_mod", "c04_cache_" + _n, what="cache: remap_method iff all entries agree (original names " + _n + "), frames agree and do not leak into the neighbour method", **_c04c)
for _q in (1, 2):
    H("C04", "cache_mod", "c04_cache_class_lookup_2classes_q%d" % _q, what="cache class lookup exact for every %d-byte query, classes a, a$" % _q, vars="%d query bytes" % _q,
      bound="2 classes", functions=["ProguardCache::get_class", "ProguardCache::remap_class", "ProguardCache::remap_throwable"], stubs=[])
for _q, _t in [(1, "thorough"), (2, "thorough"), (3, "thorough")]:
    H("C04", "cache_mod", "c04_cache_class_lookup_q%d" % _q, tier=_t, timeout=900, what="cache class lookup (binary search) is exact for every %d-byte query over {a,b,$,.,A,0,m} against classes a, a$, a., b" % _q,
      vars="%d query bytes" % _q, bound="4 classes, %d-byte queries" % _q, functions=["ProguardCache::get_class", "ProguardCache::remap_class", "ProguardCache::remap_throwable"], stubs=[])
H("C04", "mapper", "p_mapper_dupclass", what="(shared with C01) real builder on [class a, method, class a again, method]: class and method lookup answer from the last class block with that name", bound="4 records (1 symbolic)", **_pb)
H("C04", "cache_mod", "c04_cache_find_range", what="find_range_by_binary_search returns exactly the maximal Equal run for every sorted comparison table", vars="slice length <=5, run bounds lo<=hi", bound="<=5 members",
  functions=["ProguardCache::find_range_by_binary_search"], stubs=[])

# --------------------------------------------------------------------------- C08
PROPS["C08"] = dict(
    claim="remap_stacktrace_typed keeps the cause-chain depth, every throwable (remapped or unchanged) and every frame (remapped or unchanged)",
    outside="cause depth > 2; frames that expand to more than one remapped frame inside a typed trace (measured: Vec::extend with a symbolic number of frames does not finish in 300 s); agreement with the text API (C07 is not applicable)",
    assumptions=[],
)
_c08m = dict(functions=["ProguardMapper::remap_stacktrace_typed", "ProguardMapper::remap_throwable", "ProguardMapper::remap_frame", "mapper::iterate_with_lines"],
             stubs=STD_STUBS + ["mapper::extract_class_name -> constant (no entry has a file)"])
for _n in ["none", "known", "unknown", "known_unknown_known", "unknown_known_unknown", "none_unknown"]:
    H("C08", "mapper", "c08_mapper_chain_" + _n, what="mapper typed remap keeps cause-chain depth and every throwable; (exception, cause, cause-of-cause) = " + _n,
      vars="message presence", bound="cause depth<=2, no frames", **_c08m)
for _n in ["unknown_r0", "unknown_r2"]:
    H("C08", "mapper", "c08_mapper_frames_" + _n, what="mapper typed remap keeps 3 unresolvable frames unchanged (unknown class / unknown method)", vars="frame line within a regime", bound="3 frames", **_c08m)
H("C08", "mapper", "c08_mapper_one_frame", what="one frame, one entry: replaced by its remapped frame or kept unchanged", vars="frame line (any usize)", bound="1 frame, 1 entry", **_c08m)
H("C08", "mapper", "c08_mapper_two_frames", what="unresolvable frame followed by a resolvable one", vars="frame line (any usize)", bound="2 frames, 1 entry", **_c08m)

_c08c = dict(functions=["ProguardCache::remap_stacktrace_typed", "ProguardCache::remap_throwable", "ProguardCache::remap_frame", "cache::iterate_with_lines"],
             stubs=["cache::extract_class_name -> constant (no entry has a file)"])
for _n in ["none", "known", "unknown", "known_unknown_known", "unknown_known_unknown"]:
    H("C08", "cache_mod", "c08_cache_chain_" + _n, what="cache typed remap keeps cause-chain depth and every throwable; " + _n, vars="message presence", bound="cause depth<=2, no frames", **_c08c)
H("C08", "cache_mod", "c08_cache_one_frame", what="cache: one frame, one entry: replaced or kept", vars="frame line (any usize)", bound="1 frame", **_c08c)
H("C08", "cache_mod", "c08_cache_two_frames", what="cache: unresolvable frame followed by a resolvable one", vars="frame line (any usize)", bound="2 frames", **_c08c)

# --------------------------------------------------------------------------- C13
PROPS["C13"] = dict(
    claim="compositional panic/overflow freedom: mapper kernel with unrestricted 64-bit numbers, parser step, descriptor tokenizer, frame/throwable parsers",
    outside="whole build-write-parse-query pipelines; text trace remapping (C07)",
    assumptions=["builder representation invariant (see C01)"],
)
H("C13", "mapper", "c13_mapper_kernel_nopanic", what="mapper iterate_with_lines never panics/overflows, unrestricted numbers", vars="all numbers 64-bit, frame line", bound="K=2",
  functions=["mapper::iterate_with_lines"], stubs=[])

H("C13", "stacktrace", "c13_classifiers_3", timeout=1800, what="parse_frame / parse_throwable never panic, parts are sub-slices; every valid-UTF-8 text of 3 bytes over the delimiter alphabet + a 2-byte character",
  vars="3 bytes", bound="3 bytes", functions=["stacktrace::parse_frame", "stacktrace::parse_throwable"], stubs=["core::slice::memchr::{memchr,memrchr} -> byte loops"])
H("C13", "stacktrace", "c13_classifiers_5", tier="thorough", timeout=1800, what="same, 5 bytes", vars="5 bytes", bound="5 bytes",
  functions=["stacktrace::parse_frame", "stacktrace::parse_throwable"], stubs=["core::slice::memchr::{memchr,memrchr} -> byte loops"])
H("C13", "stacktrace", "c13_frame_template_6", tier="thorough", timeout=2400, what="`at ` + 6 symbolic bytes + `)`: parse_frame never panics; a returned frame is exactly the pieces of the line",
  vars="6 bytes", bound="10-byte lines of that shape", functions=["stacktrace::parse_frame"], stubs=["core::slice::memchr::{memchr,memrchr} -> byte loops"])

H("C13", "java", "c13_tokenizer_utf8", timeout=2400, what="descriptor tokenizer never panics on `(L`+3 bytes+`V` incl. a 2-byte character (valid UTF-8 only)", vars="3 bytes", bound="6-byte strings of that shape",
  functions=["java::parse_obfuscated_bytecode_signature"], stubs=["core::slice::memchr::{memchr,memrchr} -> byte loops"])
for _n in ["plain", "foreign_synth"]:
    H("C13", "cache_mod", "c12_kernel_" + _n, timeout=900, what="(shared with C12) cache frame kernel with arbitrary numbers never panics/overflows: what a written cache holds after the writer's u32 narrowing, shape " + _n,
      vars="all numbers (u32), frame line (usize)", bound="1 entry", functions=["cache::iterate_with_lines"], stubs=["watto::StringTable::read -> strtab_read_model"])

# --------------------------------------------------------------------------- C06
PROPS["C06"] = dict(
    claim=("one step of the real record parser from every slice of 1..3 arbitrary bytes, and from `#` followed by up to 4 arbitrary bytes (thorough: 1..4 arbitrary bytes, four-space indent + up to 4 bytes): never "
           "panics (default checks on), returns a strict suffix of its input (=> termination and <=1 item per byte, by induction over ProguardRecordIter::next) and yields no string containing a line terminator; "
           "thorough adds the validation of the from_utf8 / is_numeric models against the real functions"),
    outside=("longer slices, the sourceFile JSON prefix and the locality step (the record depends only on its first line; passes alone on 3-byte slices in 15 min but runs out of memory next to other harnesses) are written (`--tier extra`) but did not finish inside 15-50 min; equality of Err items' `line` payload (carries the terminator)"),
    assumptions=["std models (each proved equal to the real function by an s_* harness): core::str::from_utf8 -> table-driven validator; char::is_numeric -> exact Latin-1 table; memchr/memrchr -> byte loops"],
)
_c06 = dict(functions=["mapping::parse_proguard_record", "parse_proguard_header", "parse_proguard_field_or_method", "parse_proguard_class", "parse_usize", "parse_until*", "split_line", "consume_leading_newlines"],
            stubs=["core::str::from_utf8 -> from_utf8_model", "char::is_numeric -> is_numeric_model", "memchr/memrchr -> byte loops"])
H("C06", "mapping", "c06_step_any_3", timeout=2400, what="step (a)(b)(c), every slice of 1..3 arbitrary bytes", vars="3 bytes (all 256 values), length", bound="<=3 bytes", **_c06)
H("C06", "mapping", "c06_step_header_4", timeout=2400, what="step, `#` + up to 4 arbitrary bytes", vars="4 bytes, length", bound="<=5 bytes", **_c06)
H("C06", "mapping", "c06_step_sourcefile_3", tier="extra", timeout=3000, what="step, sourceFile JSON prefix + up to 3 arbitrary bytes (unterminated value, terminators inside)", vars="3 bytes, length", bound="33+3 bytes", **_c06)
H("C06", "mapping", "c06_locality_any_3", tier="extra", timeout=3000, what="locality (d), every 3-byte slice", vars="3 bytes", bound="3 bytes", **_c06)
H("C06", "mapping", "c06_locality_any_4", tier="extra", timeout=3000, what="locality (d), every 4-byte slice", vars="4 bytes", bound="4 bytes", **_c06)
H("C06", "mapping", "c06_step_any_4", tier="thorough", timeout=2400, what="step, 1..4 arbitrary bytes", vars="4 bytes, length", bound="<=4 bytes", **_c06)
H("C06", "mapping", "c06_step_any_5", tier="extra", timeout=3000, what="step, 1..5 arbitrary bytes", vars="5 bytes, length", bound="<=5 bytes", **_c06)
H("C06", "mapping", "c06_step_member_4", tier="thorough", timeout=2400, what="step, four-space indent + up to 4 arbitrary bytes", vars="4 bytes, length", bound="<=8 bytes", **_c06)
H("C06", "mapping", "c06_step_member_6", tier="extra", timeout=3000, what="step, four-space indent + up to 6 arbitrary bytes", vars="6 bytes, length", bound="<=10 bytes", **_c06)
H("C06", "mapping", "c06_step_header_6", tier="extra", timeout=2400, what="step, `# ` + up to 6 arbitrary bytes", vars="6 bytes, length", bound="<=8 bytes", **_c06)
H("C06", "mapping", "c06_step_sourcefile_5", tier="extra", timeout=2400, what="step, sourceFile prefix + up to 5 arbitrary bytes", vars="5 bytes, length", bound="33+5 bytes", **_c06)
H("C06", "mapping", "c06_locality_any_5", tier="extra", timeout=3000, what="locality, every 5-byte slice", vars="5 bytes", bound="5 bytes", **_c06)
H("C06", "mapping", "c06_locality_header_4", tier="extra", timeout=2400, what="locality, `#` + 4 bytes", vars="4 bytes", bound="5 bytes", **_c06)
H("C06", "mapping", "c06_locality_sourcefile_4", tier="extra", timeout=2400, what="locality, sourceFile prefix + 4 bytes", vars="4 bytes", bound="37 bytes", **_c06)
H("C06", "mapping", "s_from_utf8_3", tier="thorough", timeout=1200, what="model validation: from_utf8_model == core::str::from_utf8 on every byte string of <=3 bytes", vars="3 bytes, length", bound="<=3 bytes",
  functions=["core::str::from_utf8"], stubs=[])
H("C06", "mapping", "s_is_numeric_latin1", tier="thorough", timeout=600, what="model validation: is_numeric_model == char::is_numeric on all 256 Latin-1 code points", vars="1 byte", bound="exhaustive over u8",
  functions=["char::is_numeric"], stubs=[])

# --------------------------------------------------------------------------- C12
PROPS["C12"] = dict(
    claim=("no panic, arithmetic overflow or out-of-bounds access (Kani's default checks on) in the cache reader's kernels for arbitrary field values: both frame iterators with every "
           "numeric field and frame line arbitrary and string offsets valid / sentinel / out of bounds / mid-string; member-range slicing with arbitrary offset and length; "
           "range search with an arbitrary (inconsistent) comparison order; every returned string is a slice of the string section or of the query; parse itself is C11"),
    outside="whole query paths on a symbolic multi-class image (get_class binary search over symbolic strings); string sections other than the fixed 61-byte one; text-trace and signature queries",
    assumptions=["watto::StringTable::read -> exact model (LEB128 + UTF-8), validated by s_strtab_read_*"],
)
_c12 = dict(functions=["cache::iterate_with_lines", "cache::iterate_without_lines", "ProguardCache::read_string", "cache::extract_class_name"], stubs=["watto::StringTable::read -> strtab_read_model"],
            vars="startline, endline, original_startline, original_endline (all u32), frame line (usize)", bound="1 entry, fixed string section")
for _n in ["plain", "foreign_synth", "bad_class", "bad_file", "bad_name", "params_bad_class", "params_bad_name"]:
    H("C12", "cache_mod", "c12_kernel_" + _n, timeout=900, what="frame kernel, arbitrary numbers, string-offset shape " + _n, **_c12)
H("C12", "cache_mod", "c12_class_member_ranges", what="get_class_members(_by_params) with arbitrary offset/len: in-bounds sub-slice or None", vars="4 u32 fields, section length <=3", bound="<=3 members",
  functions=["ProguardCache::get_class_members", "ProguardCache::get_class_members_by_params"], stubs=[])
H("C12", "cache_mod", "c12_find_range_arbitrary_order", what="find_range_by_binary_search with an arbitrary comparison table: no panic, result inside the slice", vars="4 table bytes, length", bound="<=4 members",
  functions=["ProguardCache::find_range_by_binary_search"], stubs=[])

# --------------------------------------------------------------------------- C16
PROPS["C16"] = dict(
    claim=("descriptor tokenizer: for every `(`+k characters over {I J [ L ; a / ) V (}: a valid JVM method descriptor is accepted with exactly one type per parameter (count) and the "
           "return type as the right sub-slice; strings without a parenthesised list, without a return type or with an unterminated object type yield None; never a panic (default checks on)"),
    outside=("token boundaries (only their count and the return slice are compared: reading back a Vec pushed under symbolic guards costs CBMC >200 s of array post-processing for 2 symbolic characters); "
             "type rendering / class remapping / format_signature (String, format!, str::replace) and the mapper-vs-cache comparison of the two rendering copies; non-ASCII names; more than 5 characters"),
    assumptions=["memchr/memrchr -> byte loops"],
)
_c16 = dict(functions=["java::parse_obfuscated_bytecode_signature", "java::java_base_types"], stubs=["core::slice::memchr::{memchr,memrchr} -> byte loops"], mode="full")
H("C16", "java", "c16_tokenizer_len3", timeout=1800, what="all `(`+2 characters", vars="2 characters", bound="3-character strings", **_c16)
H("C16", "java", "c16_tokenizer_len4", timeout=1800, what="all `(`+3 characters", vars="3 characters", bound="4-character strings", **_c16)
H("C16", "java", "c16_tokenizer_len5", timeout=2400, what="all `(`+4 characters", vars="4 characters", bound="5-character strings", **_c16)
H("C16", "java", "c16_tokenizer_utf8_names", tier="thorough", timeout=3600, what="`(L`+2 bytes+`;`+1 byte+`)V` incl. a 2-byte character in the class name: count and return slice", vars="3 bytes", bound="8-byte strings of that shape", **_c16)
H("C16", "java", "c16_tokenizer_len6", tier="thorough", timeout=3600, what="all `(`+5 characters", vars="5 characters", bound="6-character strings", **_c16)

# --------------------------------------------------------------------------- C19
PROPS["C19"] = dict(
    claim=("has_line_info, summary (class/method counts, last compiler / compiler_version / min_api header) and is_valid equal reference folds over the complete record stream, "
           "for every stream of items whose *kind* (error line, header key/value, class, field, method with/without line mapping) is symbolic at every position"),
    outside="streams longer than 8 items for has_line_info/summary (the loops carry no state but their accumulators; not proved beyond 8); header values outside {none, R8, 15, x}; the text->record step (C05/C06)",
    assumptions=["record injection: ProguardMapping::iter() yields the harness's items (kani::stub of mapping::parse_proguard_record)"],
)
_c19 = dict(functions=["ProguardMapping::has_line_info", "ProguardMapping::summary", "MappingSummary::new", "ProguardRecordIter::next"], stubs=["mapping::parse_proguard_record -> inject::parse_stub"], mode="full")
H("C19", "mapping", "c19_folds_3", timeout=1800, what="folds == reference, 3 items", vars="kinds/keys/values of 3 items", bound="3 items", **_c19)
H("C19", "mapping", "c19_folds_5", timeout=2400, what="folds == reference, 5 items", vars="kinds/keys/values of 5 items", bound="5 items", **_c19)
H("C19", "mapping", "c19_folds_8", tier="thorough", timeout=2400, what="folds == reference, 8 items", vars="kinds/keys/values of 8 items", bound="8 items", **_c19)
H("C19", "mapping", "c19_is_valid_window", timeout=2400, what="is_valid == 50-item window rule, 52 items of symbolic kind", vars="52 kinds", bound="52 items",
  functions=["ProguardMapping::is_valid", "ProguardRecordIter::next"], stubs=["mapping::parse_proguard_record -> inject::parse_stub"], mode="full")

# --------------------------------------------------------------------------- C05
PROPS["C05"] = dict(
    claim=("grammar templates with symbolic holes (identifier characters from the property's alphabet, digits) through the real record parser and through try_parse: the record's components are exactly the hole "
           "slices (pointer and length). Quick: header `#key` and `# key: value`+LF. Thorough adds: parse_usize alone on 1..20 symbolic digits (exact value, or an error when it does not fit 64 bits), field line + LF, and the malformed line `missing arrow` (reported as an error carrying "
           "exactly the offending line, parsing resumes after it). The remaining templates (class, method x {range} x {class} x {:os,:os:oe}, sourceFile JSON, other malformed lines) are "
           "written and runnable with `./check C05 --tier extra`, but ran out of memory / time (24 GB, 50 min) or ended undetermined, and are in neither registered tier"),
    outside=("class and method templates (extra tier only, DESIGN.md section 2b); identifiers longer than 3 symbolic characters, numbers longer than 3 digits inside a full line, non-ASCII identifier characters; "
             "the usable-range rule itself is assumed (not decided) by the C01 kernels"),
    assumptions=["std models (each proved equal to the real function by an s_* harness): core::str::from_utf8, char::is_numeric, memchr/memrchr"],
)
_c05 = dict(functions=["mapping::parse_proguard_record", "ProguardRecord::try_parse", "parse_proguard_header", "parse_proguard_field_or_method", "parse_proguard_class", "parse_usize", "parse_prefix", "parse_until*"],
            stubs=["core::str::from_utf8 -> from_utf8_model", "char::is_numeric -> is_numeric_model", "memchr/memrchr -> byte loops"], vars="identifier characters and digits of every hole", bound="one line")
for _n, _t in [("class", "extra"), ("header_k", "quick"), ("class_crlf", "extra"), ("header_kv", "quick"), ("header_sourcefile", "extra"), ("field", "extra"), ("field_lf", "thorough"),
               ("method_plain", "extra"), ("method_noargs_class", "extra"), ("method_range", "extra"), ("method_range_os", "extra"), ("method_range_os_oe", "extra"), ("method_norange_os", "extra"),
               ("bad_unspaced_arrow", "extra"), ("bad_class_no_colon", "extra"), ("bad_indent2", "extra"), ("bad_start_without_end", "extra"), ("bad_no_type", "extra"), ("bad_no_arrow", "thorough")]:
    H("C05", "mapping", "c05_" + _n, tier=_t, timeout=3000, weight=(1 if _t == "quick" else 3), what="template " + _n, **_c05)
for _n in ["range", "range_os", "range_os_oe", "norange_os_oe", "norange_os"]:
    H("C05", "mapping", "c05_digits_" + _n, tier="extra", timeout=3000, weight=2, what="digit-only method template " + _n + ": names concrete, every digit symbolic (usable-range rule, original lines present iff printed)",
      **dict(_c05, vars="every digit of every number"))
H("C05", "mapping", "c05_parse_usize_20", tier="thorough", timeout=3000, what="parse_usize on 1..20 symbolic digits: exact value or error on overflow", vars="20 digits, count", bound="<=20 digits",
  functions=["mapping::parse_usize"], stubs=["core::str::from_utf8 -> from_utf8_model", "char::is_numeric -> is_numeric_model"])

# --------------------------------------------------------------------------- C10
PROPS["C10"] = dict(
    claim=("reader half: the pinned 5.5.0 reader (verbatim copy, kani/pinned) and the current reader give the same verdict on every buffer (same error kind incl. WrongVersion, or the same "
           "section split), the same frame for every member entry a version-1 writer can produce (by line and by parameters, every frame line < 2^63) and the same member-range / range-search results; "
           "so a change of layout, sentinel or line rule in the reader without a version bump is refuted"),
    outside=("the writer half (current writer -> pinned reader) except through the C09 writer harnesses; class-name binary search over symbolic string sections; frame lines >= 2^63 and entries outside the "
             "writer encoding, where the pinned reader overflows (defects fixed in the current tree)"),
    assumptions=["documented version-1 encoding of entries (writer invariant), numbers < 2^32-1", "watto::StringTable::read -> exact model (both readers)"],
)
_c10 = dict(functions=["pinned cache::iterate_with_lines / iterate_without_lines / extract_class_name", "current cache::iterate_with_lines / iterate_without_lines"], stubs=["watto::StringTable::read -> strtab_read_model"],
            vars="4 numbers (u32), frame line, frame file presence", bound="1 entry")
for _sh in ["own_nofile", "own_file", "own_synth", "foreign_nofile", "foreign_file", "foreign_synth", "params_own", "params_foreign"]:
    H("C10", "cache_mod", "c10_kernel_diff_" + _sh, what="pinned reader kernel == current reader kernel, shape " + _sh, **_c10)
H("C10", "cache_mod", "c10_parse_diff_96", what="pinned parse == current parse on every buffer <=96 bytes", vars="96 bytes, length", bound="<=96 bytes",
  functions=["pinned ProguardCache::parse", "ProguardCache::parse"], stubs=[])
H("C10", "cache_mod", "c10_lookup_diff", what="member-range slicing and range search agree", vars="offsets/lengths, comparison table", bound="<=4 members",
  functions=["find_range_by_binary_search (both)", "get_class_members(_by_params) (both)"], stubs=[])

# --------------------------------------------------------------------------- C15
PROPS["C15"] = dict(
    claim=("ProguardCache::write on the empty mapping, and the writer's padding step (write_padding + std write_all) for every section length, under every sink schedule: success => exactly the padding bytes were accepted (zeros up to the next multiple of 8); "
           "a non-retryable sink error => failure with only a prefix delivered; Interrupted is retried"),
    outside="ProguardCache::write on non-empty mappings (not executable under CBMC, DESIGN.md section 2b): its payload writes are plain write_all calls chained with `?`; more than 12 sink calls",
    assumptions=["sink obeys the io::Write contract: accepts 1..=len bytes per successful call"],
)
H("C15", "cache_raw", "c15_write_empty_mapping", timeout=3000, what="ProguardCache::write on the empty record stream with a symbolic sink schedule vs the bytes it delivers to a Vec",
  vars="12 per-call limits, failing call index, interrupted call index", bound="empty mapping (24-byte output), <=12 sink calls",
  functions=["ProguardCache::write", "cache::raw::write_padding", "std::io::Write::write_all"], stubs=["record injection (empty stream)"] + STD_STUBS)
H("C15", "cache_raw", "c15_padding_unit", timeout=1800, what="write_padding with symbolic section length and symbolic sink schedule (per-call acceptance, failing call, interrupted call)",
  vars="section length (usize), 12 per-call limits, failing call index, interrupted call index", bound="<=12 sink calls",
  functions=["cache::raw::write_padding", "std::io::Write::write_all"], stubs=[])

# --------------------------------------------------------------------------- C18
PROPS["C18"] = dict(
    claim=("uuid() == new_v5(new_v5(NAMESPACE_DNS, b\"guardsquare.com\"), exactly the source slice): two hash computations, the second over the untouched source pointer and full length, its result returned"),
    outside="SHA-1 / RFC 4122 arithmetic inside the uuid crate (uninterpreted here; its contract is trusted); sources longer than 16 bytes (the function is length-oblivious); cross-process stability",
    assumptions=["uuid::Uuid::new_v5 -> uninterpreted recorder returning a fresh arbitrary value per call"],
)
H("C18", "mapping", "c18_uuid_wiring_1", features="uuid", timeout=900, what="uuid() wiring for every source of <=1 symbolic byte", vars="1 byte, length", bound="<=1 byte",
  functions=["ProguardMapping::uuid", "lazy_static NAMESPACE"], stubs=["uuid::Uuid::new_v5 -> recorder"], name_path="mapping::verif_harness::c18::c18_uuid_wiring_1")
H("C18", "mapping", "c18_uuid_wiring_3", features="uuid", timeout=600, what="uuid() wiring for every source of <=3 symbolic bytes", vars="3 bytes, length", bound="<=3 bytes",
  functions=["ProguardMapping::uuid", "lazy_static NAMESPACE"], stubs=["uuid::Uuid::new_v5 -> recorder"], name_path="mapping::verif_harness::c18::c18_uuid_wiring_3")
H("C18", "mapping", "c18_uuid_wiring", features="uuid", timeout=600, what="uuid() wiring for every source of <=16 symbolic bytes", vars="16 bytes, length", bound="<=16 bytes",
  functions=["ProguardMapping::uuid", "lazy_static NAMESPACE"], stubs=["uuid::Uuid::new_v5 -> recorder"], name_path="mapping::verif_harness::c18::c18_uuid_wiring")

# --------------------------------------------------------------------------- not applicable / notes
NOTES = ("All checks are driven by /verif/check; see DESIGN.md. Exit 2 = inconclusive (timeout, OOM, unwinding bound, "
         "vacuity or build failure of the verification build) and is never reported as success or as a violation.")

NOT_APPLICABLE = {
    "C07": "text-trace remapping runs str::lines/trim/split_once/parse/fmt over text whose shape is the quantified variable; measured cost of those std routines under CBMC (10-40 s per call on 4 symbolic bytes) puts even one frame line (11+ bytes) out of reach, and a template-only harness would decide nothing about arbitrary line shapes (DESIGN.md section 5, C07)",
    "C14": "quantifies over processes, hash seeds, threads and allocation addresses; Kani is single-threaded, CBMC's address model is deterministic and std HashMap seeding is not executable under it (DESIGN.md section 5, C14)",
    "C09": "the property is about the bytes ProguardCache::write produces; under Kani/CBMC the writer runs symbolically only on a 2-record stream and parsing its output back does not finish in 15 min (every string length read from the written Vec is symbolic for symbolic execution), larger streams run out of memory (21-28 GB) - measured, DESIGN.md section 2b; the by-params offset defect it would have shown was confirmed natively and fixed",
    "C17": "the print direction (Display -> fmt::write -> growing String, usize formatting) over symbolic names is the construct measured as intractable for CBMC here (DESIGN.md section 2b); the parse direction of single lines is decided inside C13's classifier harnesses; whole-trace round trips additionally need str::lines and Vec growth over symbolic text",
    "C20": "Send/Sync are decided by rustc's trait solver, not by a SAT/SMT query, and Kani does not model threads (DESIGN.md section 5, C20)",
}
for _p in [f"C{i:02d}" for i in range(1, 21)]:
    if _p not in PROPS and _p not in NOT_APPLICABLE:
        NOT_APPLICABLE[_p] = "check not built yet (work in progress; see DESIGN.md for the planned harnesses)"
