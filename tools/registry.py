"""Registry of harnesses per property: what each encodes, its bound, tier,
Kani mode and time limit. The driver (`/verif/check`) reads nothing else."""
import os

VERIF = os.path.dirname(os.path.dirname(os.path.abspath(__file__)))
MEM_GB = 24  # RLIMIT_AS per process (cbmc); an OOM is reported as inconclusive

MODS = {
    "cache_raw": ("cache::raw::verif_harness", "cache_raw.rs"),
    "cache_mod": ("cache::verif_harness", "cache_mod.rs"),
    "mapper": ("mapper::verif_harness", "mapper.rs"),
    "mapping": ("mapping::verif_harness", "mapping.rs"),
    "java": ("java::verif_harness", "java.rs"),
    "stacktrace": ("stacktrace::verif_harness", "stacktrace.rs"),
}

STD_STUBS = ["model: std HashMap/HashSet/BTreeMap -> Vec-backed models (kani/support/collections.rs)"]

HARNESSES = []


def H(prop, mod, name, tier="quick", mode="full", timeout=600, **kw):
    path, f = MODS[mod]
    d = dict(prop=prop, name=name, path=f"{path}::{name}", file=os.path.join(VERIF, "kani", "harness", f),
             tier=tier, mode=mode, timeout=timeout)
    d.update(kw)
    HARNESSES.append(d)


def harnesses_for(prop, tier):
    out = []
    for h in HARNESSES:
        if h["prop"] != prop:
            continue
        if tier == "quick" and h["tier"] != "quick":
            continue
        out.append(dict(h))
    return out


PROPS = {}

# --------------------------------------------------------------------------- C11
PROPS["C11"] = dict(
    claim=("ProguardCache::parse returns, for every buffer up to the bound and every content, exactly the verdict "
           "of a reference reading of the documented layout (error kind with payload, or the section split); and "
           "no strict prefix of an exactly-sized accepted buffer is accepted"),
    outside="buffers longer than 160 bytes (quick: 96); queries on accepted prefixes (vacuous: none is accepted)",
    assumptions=["buffer is 8-byte aligned (what the allocator gives Vec<u8>/mmap; parse rejects misaligned input with InvalidHeader)"],
)
_c11 = dict(functions=["ProguardCache::parse", "watto::Pod::ref_from_prefix", "watto::Pod::slice_from_prefix", "watto::align_to"],
            stubs=[])
H("C11", "cache_raw", "c11_error_kinds_96", what="parse verdict == reference verdict, all buffers <=96 bytes",
  vars="96 buffer bytes, length", bound="len<=96", **_c11)
H("C11", "cache_raw", "c11_prefix_96", what="no strict prefix of an exact-length valid image parses",
  vars="96 buffer bytes, length, prefix length", bound="len<=96", **_c11)
H("C11", "cache_raw", "c11_error_kinds_160", tier="thorough", what="as above, <=160 bytes",
  vars="160 buffer bytes, length", bound="len<=160", **_c11)
H("C11", "cache_raw", "c11_prefix_160", tier="thorough", what="as above, <=160 bytes",
  vars="160 buffer bytes, length, prefix length", bound="len<=160", **_c11)

# --------------------------------------------------------------------------- not applicable / notes
NOTES = ("All checks are driven by /verif/check; see DESIGN.md. Exit 2 = inconclusive (timeout, OOM, unwinding bound, "
         "vacuity or build failure of the verification build) and is never reported as success or as a violation.")

NOT_APPLICABLE = {
    "C07": "text-trace remapping runs str::lines/trim/split_once/parse/fmt over text whose shape is the quantified variable; measured cost of those std routines under CBMC (10-40 s per call on 4 symbolic bytes) puts even one frame line (11+ bytes) out of reach, and a template-only harness would decide nothing about arbitrary line shapes (DESIGN.md section 5, C07)",
    "C14": "quantifies over processes, hash seeds, threads and allocation addresses; Kani is single-threaded, CBMC's address model is deterministic and std HashMap seeding is not executable under it (DESIGN.md section 5, C14)",
    "C20": "Send/Sync are decided by rustc's trait solver, not by a SAT/SMT query, and Kani does not model threads (DESIGN.md section 5, C20)",
}
for _p in [f"C{i:02d}" for i in range(1, 21)]:
    if _p not in PROPS and _p not in NOT_APPLICABLE:
        NOT_APPLICABLE[_p] = "check not built yet (work in progress; see DESIGN.md for the planned harnesses)"
