#!/bin/sh
# Developer helper (not used by checks): (re)create an instrumented experiment tree at
# /var/tmp/exp/tree whose harness/support modules point at /verif/kani (live edits),
# then run one harness:   tools/exp.sh [-f] <module::path::harness> [extra cargo-kani args]
# -f: functional mode (no memory-safety/overflow checks)
set -e
EXP=/var/tmp/exp
MODE=""
if [ "$1" = "-f" ]; then MODE="--no-memory-safety-checks --no-overflow-checks"; shift; fi
H="$1"; shift || true
if [ ! -d $EXP/tree ] || [ -n "$EXP_FRESH" ]; then
  mkdir -p $EXP; rm -rf $EXP/tree
  rsync -a --exclude target --exclude .git /repo/ $EXP/tree/
  VERIF_ROOT=/verif python3 /verif/tools/instrument.py $EXP/tree
fi
cd $EXP/tree
LOG=$EXP/$(echo "$H" | sed 's/.*:://').log
( time timeout ${EXP_TIMEOUT:-1800} cargo kani -Z unstable-options -Z stubbing --harness "$H" --exact --target-dir ${EXP_TARGET:-$EXP/target} $MODE "$@" --cbmc-args --max-field-sensitivity-array-size 4096 ) > "$LOG" 2>&1 || true
grep -A2 "Status: FAILURE" "$LOG" | grep "Description\|Location" | cut -c1-220 | head -20
grep -A2 "Status: UNSATISFIABLE\|Status: UNREACHABLE" "$LOG" | grep -B1 -A1 "cover" | grep Desc | head
grep "^error" -A8 "$LOG" | head -30
grep "Runtime Symex\|Runtime Solver\|Runtime decision\|SUMMARY\|of .* failed\|cover properties\|VERIFICATION\|^real" "$LOG" | tail -8
