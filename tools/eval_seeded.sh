#!/bin/sh
# Developer helper: run a property's check against /repo + one seeded patch, without touching /repo
# and without rewriting evidence.  usage: tools/eval_seeded.sh <PROP> <patch.diff> [tier] [extra check args]
# Prints the check's verdict lines; exit status is the check's.
set -e
PROP="$1"; PATCH="$2"; TIER="${3:-quick}"; shift 3 2>/dev/null || shift 2
D=$(mktemp -d /var/tmp/seedrepo.XXXXXX)
rsync -a --exclude target --exclude .git /repo/ "$D/"
( cd "$D" && git init -q . >/dev/null 2>&1 && git apply --whitespace=nowarn "$PATCH" ) || { echo "PATCH-DOES-NOT-APPLY $PATCH"; rm -rf "$D"; exit 3; }
rm -rf "$D/.git"
set +e
VERIF_REPO="$D" /verif/check "$PROP" --tier "$TIER" --no-evidence "$@" > "$D.log" 2>&1
RC=$?
grep -E "^\s+\[|^VIOLATION|^INCONCLUSIVE|^OK|^KNOWN|failed:" "$D.log" | grep -v "\[ *pass\]" | head -40
echo "RESULT prop=$PROP patch=$PATCH tier=$TIER rc=$RC"
rm -rf "$D"
exit $RC
