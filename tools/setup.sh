#!/bin/sh
# Nothing to build ahead of time: every check rebuilds the verification crate
# from /repo's working tree. This only verifies the toolchain is present.
set -e
cd "$(dirname "$0")/.."
command -v cargo-kani >/dev/null
command -v cbmc >/dev/null
command -v rsync >/dev/null
python3 -c "import json,sys" 
mkdir -p evidence replays
echo "setup ok: $(cargo kani --version 2>/dev/null | head -1), $(cbmc --version)"
