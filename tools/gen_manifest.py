#!/usr/bin/env python3
"""Regenerate /verif/MANIFEST.json from tools/registry.py (single source of truth)."""
import json, os, sys
sys.path.insert(0, os.path.dirname(os.path.abspath(__file__)))
import registry

VERIF = registry.VERIF
ALL = [f"C{i:02d}" for i in range(1, 21)]

checks = []
for pid in ALL:
    if pid not in registry.PROPS:
        continue
    P = registry.PROPS[pid]
    hs_q = registry.harnesses_for(pid, "quick")
    hs_t = registry.harnesses_for(pid, "thorough")
    if not hs_q:
        continue
    checks.append(dict(
        property_id=pid,
        quick_cmd=f"./check {pid} --tier quick",
        thorough_cmd=f"./check {pid} --tier thorough",
        evidence_file=f"/verif/evidence/{pid}.json",
        replay_cmd_template="./check " + pid + " --replay {path}",
        engine="kani-cbmc",
        level_claimed=dict(
            category="model_checking",
            text=("Bounded model checking of the real functions (Kani 0.68 -> CBMC 6.11 -> CaDiCaL): " + P["claim"] +
                  f". Decided for every value of the symbolic inputs inside the bound ({len(hs_q)} harnesses quick, "
                  f"{len(hs_t)} thorough); nothing is claimed outside it: " + P["outside"]),
            design_ref=P.get("design_ref", f"DESIGN.md section 5, {pid}"),
        ),
        level_note="; ".join(P.get("assumptions", []) + P.get("trusted", [])) or "Kani/CBMC/rustc-MIR translation; harness oracles in /verif/kani",
        technique="SAT-based bounded model checking of compiled Rust (Kani/CBMC), symbolic inputs, reference-model oracles, unwinding assertions on",
    ))

na = [dict(property_id=p, reason=r) for p, r in registry.NOT_APPLICABLE.items() if p not in registry.PROPS]

manifest = dict(
    version=1,
    setup_cmd="./tools/setup.sh",
    hooks=dict(
        guard="cfg(kani) / cfg(proguard_verif) - applied by tools/instrument.py to a scratch copy of /repo's working tree; no hook commits exist in /repo",
        enable="./check copies /repo's working tree to /var/tmp/pgverif.<pid>.<id>/tree, runs tools/instrument.py on the copy (add-only: cfg-switched container imports, harness child modules) and builds it with `cargo kani`",
        baseline_off_cmd="cd /repo && cargo test --workspace --no-fail-fast --offline",
        source_commits=[],
        add_only=True,
    ),
    engines=[dict(name="kani-cbmc", path="/verif/check", serves_properties=[c["property_id"] for c in checks],
                  kind_free_text="Kani 0.68.0 (cargo kani) + CBMC 6.11.0 + CaDiCaL; harnesses in /verif/kani/harness compiled as child modules of the real crate modules")],
    checks=checks,
    notes=registry.NOTES,
    not_applicable=na,
)
json.dump(manifest, open(os.path.join(VERIF, "MANIFEST.json"), "w"), indent=1)
print(f"{len(checks)} checks, {len(na)} not applicable")
